"""C06 - every accepted design yields legal, well-typed, self-consistent VHDL.

real compiler (c06_worker.py, one forked child per design) -> emitted text -> fail-closed reader
(vhdl_reader.parse_library; an Unparsed = the text left the legal subset) -> per entity a Coq term
(design of the entity's own statements, declared names per region, port associations of its
instances) -> the legality rules of Vhdl/Typing.v and Vhdl/Names.v are EVALUATED INSIDE COQ
(vm_compute): wt_design, assoc_ok, case_ok, ports_ok, sens_ok, idents_ok, decl_unique,
no_reserved (against the checked-in VHDL-93 table), no_hiding, lib_unique.  The recorded inputs
and outputs of every VhdlScope.complete_setup are compared with the Gallina model
Names.uniquify (model = code), and the live reserved-word / operator tables are regenerated
(tables.py) and checked against Vhdl/TablesRef.v.

design sources: regression corpus (the witnesses of the defects fixed in /repo by 94f10ee, 66ecb7a, 60980b9, 825f8bb,
3102177, e0166b5: they must now be legal or rejected), NAMING generator, EXPRESSION generator, and (thorough tier)
all upstream reference designs = the false-alarm guard of the rules."""
from __future__ import annotations
import json
import os
import re

import common
import vhdl_reader as R

RULES = ["wt_design", "assoc_ok", "case_ok", "ports_ok", "sens_ok", "idents_ok", "decl_unique", "no_reserved",
         "no_hiding", "no_user_reserved", "lib_unique", "libs_visible"]

PREDEF_TYPES = ["std_logic", "std_logic_vector", "unsigned", "signed", "boolean", "integer", "natural"]
PREDEF_FUNCS = ["to_integer", "to_unsigned", "to_signed", "resize", "shift_left", "shift_right", "rising_edge",
                "falling_edge", "std_logic_vector", "unsigned", "signed", "cohdl_bool_to_std_logic"]
PREDEF_LITS = ["true", "false"]
PREDEF_LIBS = ["work"]
PREDEF = set(PREDEF_TYPES + PREDEF_FUNCS + PREDEF_LITS + PREDEF_LIBS)

PREAMBLE = (common.COQ_HEADER +
            "From Coq Require Import String.\n"
            "From Cohdl Require Import Vhdl.Typing Vhdl.Names Vhdl.TablesRef.\n"
            "Local Open Scope string_scope.\n"
            "Record ecase := { ec_d : design; ec_names : ent_names; ec_assoc : list assoc; ec_user : list string;\n"
            "  ec_lib : list string; ec_libs_declared : list string; ec_libs_used : list string }.\n"
            "(* every library prefix of an instantiated unit is `work` or made visible by a library clause of the unit *)\n"
            "Definition libs_visible (declared used : list string) : bool :=\n"
            "  forallb (fun u => String.eqb u \"work\" || existsb (String.eqb u) declared) used.\n"
            "Definition rules (c : ecase) : list bool :=\n"
            "  [ wt_design c.(ec_d); forallb (assoc_ok (mk_tenv c.(ec_d))) c.(ec_assoc); case_ok c.(ec_d);\n"
            "    ports_ok c.(ec_d); sens_ok c.(ec_d); idents_ok c.(ec_names); decl_unique c.(ec_names);\n"
            "    no_reserved vhdl93_reserved c.(ec_names); no_hiding predefined_used_by_emitter c.(ec_names);\n"
            "    no_reserved (map lower c.(ec_user)) c.(ec_names); lib_unique c.(ec_lib);\n"
            "    libs_visible c.(ec_libs_declared) c.(ec_libs_used) ].\n"
            "Fixpoint failing (l : list bool) (i : N) : list N :=\n"
            "  match l with [] => [] | b :: r => if b then failing r (i + 1)%N else i :: failing r (i + 1)%N end.\n"
            "Definition verdict (c : ecase) : list N * list N := (failing (rules c) 0%N, ill_typed_conc c.(ec_d)).\n")


# ----------------------------------------------------------------------------------------------------------
# emitted text -> per-entity cases
# ----------------------------------------------------------------------------------------------------------

def split_entities(text):
    """text of each design unit pair (entity + architecture), in emission order"""
    out = []
    buf = None
    for line in text.split("\n"):
        if re.match(r"\s*entity\s+(\w+)\s+is\s*$", line, re.I):
            if buf is not None:
                out.append("\n".join(buf))
            buf = []
        if buf is not None:
            buf.append(line)
    if buf is not None:
        out.append("\n".join(buf))
    return out


_CALL_RE = re.compile(r"\b([A-Za-z]\w*)\s*('?)\(")
_STATIC_ARG = re.compile(r"\s*\d+\s*(?:(?:downto|to)\s+\d+\s*)?\)", re.I)


def scan_text(ent: R.Entity, text):
    """-> (scoped, relied): every declared identifier with the lines (from, to] in which it is visible, and the
    predefined identifiers the text uses in their predefined role with the line of each use (trusted
    tokenisation; cross-checked against the reader's list of declared names, fail-closed).
    predefined role = type mark, call / conversion / qualified-expression position, boolean literal, library
    name of a direct instantiation.  `p(static index or range)` with p declared as a vector / array object is a
    reference to that object, not a call."""
    lines = text.split("\n")
    n = len(lines)
    vec_objs = set()
    for d in list(ent.ports) + list(ent.signals):
        if d.ty.kind in ("vec", "arr"):
            vec_objs.add(d.name.lower())
    for c in ent.conc:
        if isinstance(c, R.Process):
            for v in c.vars:
                if v.ty.kind in ("vec", "arr"):
                    vec_objs.add(v.name.lower())
    scoped = []
    relied = []
    proc_open = []      # indices into scoped of the variables of the process being read
    for i, raw in enumerate(lines, 1):
        line = raw.strip()
        if not line or line.startswith("--"):
            continue
        low = line.lower()
        if low.startswith(("library ", "use ")):
            continue
        body = low
        tm = []
        m = re.match(r"entity\s+(\w+)\s+is$", low)
        if m:
            scoped.append([line.split()[1], i, n])
            body = ""
        m = re.match(r"architecture\s+(\w+)\s+of\s+\w+\s+is$", low)
        if m:
            scoped.append([line.split()[1], i, n])
            body = ""
        m = re.match(r"(signal|variable|constant)\s+(\w+)\s*:\s*(\w+)[^:]*(:=.*)?$", low)
        if m:
            name = re.match(r"\w+\s+(\w+)", line).group(1)
            scoped.append([name, i, n])
            if m.group(1) == "variable":
                proc_open.append(len(scoped) - 1)
            tm.append(m.group(3))
            body = m.group(4) or ""
        m = re.match(r"(\w+)\s*:\s*(?:in|out|inout)\s+(\w+)", low)
        if m:
            scoped.append([re.match(r"(\w+)", line).group(1), i, n])
            tm.append(m.group(2))
            body = ""
        m = re.match(r"type\s+(\w+)\s+is\s+array\s*\(.*\)\s+of\s+(\w+)", low)
        if m:
            scoped.append([line.split()[1], i, n])
            tm.append(m.group(2))
            body = ""
        else:
            m = re.match(r"type\s+(\w+)\s+is\s*\((.*)\)\s*;", line, re.I)
            if m:
                scoped.append([m.group(1), i, n])
                for lit in m.group(2).split(","):
                    scoped.append([lit.strip(), i, n])
                body = ""
        m = re.match(r"function\s+(\w+)\s*\(\s*\w+\s*:\s*(\w+)\s*\)\s*return\s+(\w+)", low)
        if m:
            tm += [m.group(2), m.group(3)]
            body = ""
        if low.startswith("end "):
            body = ""
            if low == "end process;":
                for k in proc_open:
                    scoped[k][2] = i
                proc_open = []
        m = re.match(r"(\w+)\s*:\s*process\b", low)
        if m:
            scoped.append([re.match(r"(\w+)", line).group(1), i, n])
            body = low[m.end():]
        m = re.match(r"(\w+)\s*:\s*entity\s+(\w+)\.", low)
        if m:
            scoped.append([re.match(r"(\w+)", line).group(1), i, n])
            tm.append(m.group(2))
            body = ""
        for t in tm:
            if t in PREDEF:
                relied.append((t, i))
        for mm in _CALL_RE.finditer(body):
            ident, tick = mm.group(1), mm.group(2)
            if ident not in PREDEF:
                continue
            if not tick and ident in vec_objs and _STATIC_ARG.match(body, mm.end()):
                continue
            relied.append((ident, i))
        for lit in PREDEF_LITS:
            if re.search(r"(?<![\w'])%s(?![\w(])" % lit, body):
                relied.append((lit, i))
    # fail-closed cross-check with the reader's view of the declared names
    mine = sorted(x[0].lower() for x in scoped)
    theirs = sorted(nm.lower() for _r, kind, nm in ent.names if kind != "function")
    if mine != theirs:
        raise R.Unparsed("declared-name scan disagrees with the reader: %s" % sorted(set(mine) ^ set(theirs))[:6])
    # only uses of a name that is also declared in this text can make no_hiding fail: the others are dropped
    declared = {x[0].lower() for x in scoped}
    return [(a, b, c) for a, b, c in scoped], sorted(set(r for r in relied if r[0] in declared))


def stmt_names(ss, acc):
    for s in ss:
        k = s[0]
        if k in ("sig", "var"):
            acc.add(s[1][0].lower())
            for sel in s[1][1]:
                if sel[0] == "idx":
                    acc.update(x.lower() for x in R._names_in(sel[1]))
            acc.update(x.lower() for x in R._names_in(s[2]))
        elif k == "if":
            acc.update(x.lower() for x in R._names_in(s[1]))
            stmt_names(s[2], acc)
            stmt_names(s[3], acc)
        elif k == "case":
            acc.update(x.lower() for x in R._names_in(s[1]))
            for _chs, b in s[2]:
                stmt_names(b, acc)
            if s[3] is not None:
                stmt_names(s[3], acc)
        elif k == "assert":
            acc.update(x.lower() for x in R._names_in(s[1]))
    return acc


def coq_str(s):
    return '"' + s.replace('"', '""') + '"'


def coq_strs(xs):
    return "[" + "; ".join(coq_str(x) for x in xs) + "]"


def names_term(ent: R.Entity, text):
    fixed = [n for region, kind, n in ent.names if kind == "function"]
    arch = [n for region, kind, n in ent.names
            if region in ("entity", "arch") and kind not in ("architecture", "function", "enumlit")]
    lits = [list(l) for _tn, _ty, l in ent.type_decls if l is not None]
    procs = []
    for c in ent.conc:
        if isinstance(c, R.Process):
            uses = set(x.lower() for x in c.sens)
            stmt_names(c.body, uses)
            procs.append(([v.name for v in c.vars], sorted(uses)))
    scoped, relied = scan_text(ent, text)
    term = ("{| en_entity := %s; en_archname := %s; en_fixed := %s; en_arch := %s; en_lits := [%s]; "
            "en_procs := [%s]; en_scoped := [%s]; en_relied := [%s] |}" % (
                coq_str(ent.name), coq_str(ent.arch), coq_strs(fixed), coq_strs(arch),
                "; ".join(coq_strs(l) for l in lits),
                "; ".join("(%s, %s)" % (coq_strs(v), coq_strs(u)) for v, u in procs),
                "; ".join("(%s, (%d%%N, %d%%N))" % (coq_str(a), b, c) for a, b, c in scoped),
                "; ".join("(%s, %d%%N)" % (coq_str(a), b) for a, b in relied)))
    return term, {"fixed": fixed, "arch": arch, "lits": lits, "procs": procs, "scoped": scoped, "relied": relied}


def entity_design(ent: R.Entity):
    """the entity's own statements as a Design (instances left out; their port associations are checked
    by assoc_ok); constants are substituted by their values"""
    d = R.Design(ent.name, [], [], [], {}, [], [], None)
    ren = {}
    sub = {}
    for p in ent.ports:
        ren[p.name.lower()] = p.name
        d.sigs.append(R.Decl(p.name, p.ty, p.init, p.hasdef, p.dir))
    seen = set(ren)
    for s in ent.signals:
        if s.name.lower() in seen:
            continue        # duplicate declaration: reported by decl_unique; first declaration wins
        seen.add(s.name.lower())
        ren[s.name.lower()] = s.name
        d.sigs.append(R.Decl(s.name, s.ty, s.init, s.hasdef, "local"))
    for name, (kind, dec) in ent.scope.objects.items():
        if kind == "const":
            sub[name] = ("lit", dec.init)
    stmts = []
    insts = []
    for c in ent.conc:
        if isinstance(c, R.Process):
            pren = dict(ren)
            psub = dict(sub)
            for v in c.vars:
                flat = c.label + "." + v.name
                if flat.lower() in {x.name.lower() for x in d.vars}:
                    continue
                pren[v.name.lower()] = flat
                psub.pop(v.name.lower(), None)
                d.vars.append(R.Decl(flat, v.ty, v.init, v.hasdef, "local", c.label))
            sens = [ren.get(s.lower(), s) for s in c.sens]
            d.conc.append(("proc", c.label, sens, R._subst_stmts(c.body, pren, psub)))
            stmts.append(("proc", c))
        elif isinstance(c, R.Instance):
            insts.append(c)
        elif c[0] == "cassert":
            # a concurrent assertion is a process sensitive to the signals of its condition (LRM 9.4)
            cond = R._subst_expr(c[1], ren, sub)
            sens = []
            for x in R._names_in(cond):
                if x not in sens:
                    sens.append(x)
            d.conc.append(("proc", "assert__%d" % len(d.conc), sens, [("assert", cond)]))
            stmts.append(c)
        elif c[0] == "assign":
            d.conc.append(("assign", R._subst_target(c[1], ren, sub), R._subst_expr(c[2], ren, sub)))
            stmts.append(c)
        elif c[0] == "select":
            d.conc.append(("select", R._subst_target(c[1], ren, sub), R._subst_expr(c[2], ren, sub),
                           [(chs, R._subst_expr(v, ren, sub)) for chs, v in c[3]],
                           None if c[4] is None else R._subst_expr(c[4], ren, sub)))
            stmts.append(c)
    for p in ent.ports:
        (d.inputs if p.dir == "in" else d.outputs).append(p.name)
    return d, ren, sub, stmts, insts


def assoc_terms(ent, insts, by_name, printer: R.CoqPrinter, ren, sub):
    """port associations of the entity's instances as Coq terms of type assoc"""
    terms = []
    info = []
    for inst in insts:
        if inst.lib != "work":
            continue        # a unit of another library (extern entity): its ports are not in the emitted text
        child = by_name.get(inst.entity.lower())
        if child is None:
            raise R.Unparsed("instance of unknown entity %s" % inst.entity)
        if inst.arch is not None and inst.arch.lower() != child.arch.lower():
            raise R.Unparsed("instance names architecture %s, entity %s has %s" % (inst.arch, child.name, child.arch))
        formals = {p.name.lower(): p for p in child.ports}
        seen = set()
        for formal, actual, conv in inst.portmap:
            f = formal.lower()
            if f not in formals:
                raise R.Unparsed("port map of %s names unknown formal %s" % (inst.label, formal))
            if f in seen:
                raise R.Unparsed("formal %s associated twice" % formal)
            seen.add(f)
            p = formals[f]
            if conv is not None and p.dir != "out":
                raise R.Unparsed("formal-side conversion on an input port")
            a = R._subst_expr(actual, ren, sub)
            convt = "None" if conv is None else "(Some %s)" % R.VK[R.VEC_TYPES[conv]]
            terms.append("{| as_formal := %s; as_dir := %s; as_conv := %s; as_actual := %s |}" % (
                printer.ty(p.ty), "DOut" if p.dir == "out" else "DIn", convt, printer.expr(a)))
            info.append((inst.label, formal))
        missing = set(formals) - seen
        if missing:
            raise R.Unparsed("instance %s leaves formals unassociated: %s" % (inst.label, sorted(missing)))
    return terms, info


BIG_TERM = 400000


class ECase:
    """one entity of one compiled design (or one slice of the statements of a very large entity)"""
    prelude = None

    def __init__(self, dname, ent, term, meta):
        self.dname = dname
        self.ent = ent
        self.term = term
        self.meta = meta


def build_cases(dname, vhdl, user_reserved=None):
    """-> (list of ECase, lib_names) ; raises R.Unparsed"""
    ents = R.parse_library(vhdl)
    texts = split_entities(vhdl)
    by_name = {}
    for e in ents:
        by_name.setdefault(e.name.lower(), e)
    cases = []
    if len(texts) != len(ents):
        raise R.Unparsed("design units cannot be separated")
    for e, etext in zip(ents, texts):
        d, ren, sub, stmts, insts = entity_design(e)
        libs_used = sorted({i.lib for i in insts})
        pr = R.CoqPrinter(d)
        dterm = pr.design()
        aterms, ainfo = assoc_terms(e, insts, by_name, pr, ren, sub)
        nterm, ninfo = names_term(e, etext)
        meta = {"names": ninfo, "stmts": stmts, "assoc": ainfo, "design": d}
        if len(dterm) <= BIG_TERM:
            term = "{| ec_d := %s;\n ec_names := %s;\n ec_assoc := [%s]; ec_user := %s; ec_lib := %s; ec_libs_declared := %s; ec_libs_used := %s |}" % (
                dterm, nterm, "; ".join(aterms), coq_strs(user_reserved or []),
                coq_strs([x.name for x in ents] if not cases else []), coq_strs(e.libraries), coq_strs(libs_used))
            cases.append(ECase(dname, e, term, meta))
            continue
        # a very large entity: the rules about statements are conjunctions over d_conc, so the statement list is
        # cut into pieces that share the declarations (defined once per generated file)
        i0 = dterm.index("{| d_sigs := ") + len("{| d_sigs := ")
        i1 = dterm.index(";\n   d_vars := ")
        i2 = dterm.index(";\n   d_conc := [")
        i3 = dterm.index("];\n   d_clk := ")
        uid = "big_%s_%s" % (re.sub(r"\W", "_", dname)[-40:], re.sub(r"\W", "_", e.name))
        prelude = (uid, "Definition %s_sigs : list sigdecl := %s.\nDefinition %s_vars : list vardecl := %s.\n" % (
            uid, dterm[i0:i1], uid, dterm[i1 + len(";\n   d_vars := "):i2]))
        concs = [pr.conc(c) for c in d.conc]
        size = 0
        start = 0
        for k in range(len(concs) + 1):
            if k == len(concs) or (size + len(concs[k]) > BIG_TERM and k > start):
                dt = "{| d_sigs := %s_sigs; d_vars := %s_vars; d_conc := [%s%s" % (
                    uid, uid, ";\n    ".join(concs[start:k]), dterm[i3:])
                term = "{| ec_d := %s;\n ec_names := %s;\n ec_assoc := [%s]; ec_user := %s; ec_lib := %s; ec_libs_declared := %s; ec_libs_used := %s |}" % (
                    dt, nterm, "; ".join(aterms) if start == 0 else "", coq_strs(user_reserved or []),
                    coq_strs([x.name for x in ents] if not cases else []), coq_strs(e.libraries),
                    coq_strs(libs_used if start == 0 else []))
                c = ECase(dname, e, term, dict(meta, stmts=stmts[start:k]))
                c.prelude = prelude
                cases.append(c)
                start = k
                size = 0
            if k < len(concs):
                size += len(concs[k])
    return cases, [e.name for e in ents]


# ----------------------------------------------------------------------------------------------------------
# pretty printer (diagnosis only: reconstructs the offending statement for the replay)
# ----------------------------------------------------------------------------------------------------------

_OPS = {v: k for k, v in R.BINOPS.items()}
_F1 = {"FToInteger": "to_integer", "FBoolToSl": "cohdl_bool_to_std_logic", "FConvUns": "unsigned",
       "FConvSgn": "signed", "FConvSlv": "std_logic_vector", "FQualUns": "unsigned'", "FQualSgn": "signed'",
       "FQualSlv": "std_logic_vector'"}
_F2 = {"FResize": "resize", "FShl": "shift_left", "FShr": "shift_right", "FToUnsigned": "to_unsigned",
       "FToSigned": "to_signed"}


def pp_value(v):
    k = v[0]
    if k == "L":
        return "'1'" if v[1] else "'0'"
    if k == "B":
        return "true" if v[1] else "false"
    if k == "I":
        return str(v[1])
    if k == "V":
        bits = format(v[3], "b").zfill(v[2]) if v[2] else ""
        return {"slv": '"%s"', "uns": "unsigned'(\"%s\")", "sgn": "signed'(\"%s\")"}[v[1]] % bits
    if k == "E":
        return str(v[3]) if len(v) > 3 and v[3] else "enum#%d" % v[2]
    return "(" + ", ".join(pp_value(x) for x in v[1]) + ")"


def pp_expr(e):
    k = e[0]
    if k == "lit":
        return pp_value(e[1])
    if k == "name":
        return e[1]
    if k == "idx":
        return "%s(%s)" % (pp_expr(e[1]), pp_expr(e[2]))
    if k == "slice":
        return "%s(%d downto %d)" % (pp_expr(e[1]), e[2], e[3])
    if k == "un":
        return {"UNot": "not ", "UNeg": "-", "UAbs": "abs "}[e[1]] + "(" + pp_expr(e[2]) + ")"
    if k == "bin":
        return "(%s) %s (%s)" % (pp_expr(e[2]), _OPS[e[1]], pp_expr(e[3]))
    if k == "f1":
        return "%s(%s)" % (_F1[e[1]], pp_expr(e[2]))
    if k == "f2":
        return "%s(%s, %s)" % (_F2[e[1]], pp_expr(e[2]), pp_expr(e[3]))
    if k == "edge":
        return ("rising_edge(%s)" if e[1] else "falling_edge(%s)") % e[2]
    return repr(e)


def pp_target(t):
    s = t[0]
    for sel in t[1]:
        s += "(%s)" % pp_expr(sel[1]) if sel[0] == "idx" else "(%d downto %d)" % (sel[1], sel[2])
    return s


def pp_stmts(ss, ind=0):
    out = []
    pad = "  " * ind
    for s in ss:
        k = s[0]
        if k == "null":
            out.append(pad + "null;")
        elif k == "sig":
            out.append(pad + "%s <= %s;" % (pp_target(s[1]), pp_expr(s[2])))
        elif k == "var":
            out.append(pad + "%s := %s;" % (pp_target(s[1]), pp_expr(s[2])))
        elif k == "if":
            out.append(pad + "if %s then" % pp_expr(s[1]))
            out += pp_stmts(s[2], ind + 1)
            if s[3]:
                out.append(pad + "else")
                out += pp_stmts(s[3], ind + 1)
            out.append(pad + "end if;")
        elif k == "case":
            out.append(pad + "case %s is" % pp_expr(s[1]))
            for chs, b in s[2]:
                out.append(pad + "  when %s =>" % " | ".join(pp_value(c) for c in chs))
                out += pp_stmts(b, ind + 2)
            if s[3] is not None:
                out.append(pad + "  when others =>")
                out += pp_stmts(s[3], ind + 2)
            out.append(pad + "end case;")
        elif k == "assert":
            out.append(pad + "assert %s;" % pp_expr(s[1]))
    return out


def pp_conc(c):
    if isinstance(c, tuple) and c[0] == "proc":
        p = c[1]
        return ["%s: process(%s)" % (p.label, ", ".join(p.sens))] + \
               ["  variable %s : %s;" % (v.name, v.ty.kind + (v.ty.vk + str(v.ty.w) if v.ty.kind == "vec" else ""))
                for v in p.vars] + ["begin"] + pp_stmts(p.body, 1) + ["end process;"]
    if c[0] == "cassert":
        return ["assert %s;" % pp_expr(c[1])]
    if c[0] == "assign":
        return ["%s <= %s;" % (pp_target(c[1]), pp_expr(c[2]))]
    if c[0] == "select":
        lines = ["with %s select %s <=" % (pp_expr(c[2]), pp_target(c[1]))]
        for chs, v in c[3]:
            lines.append("  %s when %s," % (pp_expr(v), " | ".join(pp_value(x) for x in chs)))
        if c[4] is not None:
            lines.append("  %s when others;" % pp_expr(c[4]))
        return lines
    return [repr(c)]


# ----------------------------------------------------------------------------------------------------------
# evaluation in Coq
# ----------------------------------------------------------------------------------------------------------

def parse_verdicts(s):
    """'[([1; 2], [0]); ([], [])]' -> [([1,2],[0]), ([],[])]"""
    s = re.sub(r"%[A-Za-z]+", "", s).strip()
    res = []
    for m in re.finditer(r"\(\s*(\[[^\]]*\]|nil)\s*,\s*(\[[^\]]*\]|nil)\s*\)", s):
        res.append((common.parse_N_list(m.group(1)), common.parse_N_list(m.group(2))))
    return res


def eval_cases(ck, tag, cases, shard=24, timeout=1500):
    """-> list of (failing rule indices, ill-typed conc indices) per case; None where the term did not typecheck"""
    files = []
    bounds = []
    si = 0
    while si < len(cases):
        sj = si
        size = 0
        while sj < len(cases) and sj - si < shard and (sj == si or size + len(cases[sj].term) < 1500000):
            size += len(cases[sj].term)
            sj += 1
        bounds.append((si, sj))
        si = sj
    for si, sj in bounds:
        part = cases[si:sj]
        path = os.path.join(ck.gen, "%s_%04d.v" % (tag, si))
        with open(path, "w") as f:
            f.write(PREAMBLE)
            done = set()
            for c in part:
                if c.prelude is not None and c.prelude[0] not in done:
                    done.add(c.prelude[0])
                    f.write(c.prelude[1])
            for j, c in enumerate(part):
                f.write("Definition c%d : ecase := %s.\n" % (j, c.term))
            f.write("Eval vm_compute in (map verdict [%s]).\n" % "; ".join("c%d" % j for j in range(len(part))))
        files.append((si, path, len(part)))
    outs = common.coqc_many([p for _, p, _ in files], timeout=timeout)
    res = [None] * len(cases)
    for (si, path, n), (rc, out, err) in zip(files, outs):
        if rc != 0:
            if n == 1:
                res[si] = ("coq-error", (out + err)[-1500:])
                continue
            # isolate the offending case(s)
            sub = eval_cases(ck, tag + "_r%d" % si, cases[si:si + n], shard=max(1, n // 4), timeout=timeout)
            res[si:si + n] = sub
            continue
        vs = parse_verdicts(common.coq_outputs(out)[-1])
        if len(vs) != n:
            raise RuntimeError("cannot parse verdicts of %s: %s" % (path, out[-500:]))
        res[si:si + n] = vs
        common._cleanup_v(path)
    return res


def coqc_big(vfile, timeout=1500):
    """coqc with a large stack (very long statement sequences nest deeply in the printed term)"""
    import subprocess
    cmd = "ulimit -s unlimited 2>/dev/null || ulimit -s 4000000 2>/dev/null; exec timeout %d coqc -Q %s Cohdl -w -all %s" % (
        timeout, os.path.join(common.COQ_DIR, "theories"), vfile)
    p = subprocess.run(["bash", "-c", cmd], capture_output=True, text=True, cwd=os.path.dirname(vfile))
    return p.returncode, p.stdout, p.stderr


def eval_one_big(ck, tag, case):
    path = os.path.join(ck.gen, "%s_big.v" % tag)
    with open(path, "w") as f:
        f.write(PREAMBLE)
        if case.prelude is not None:
            f.write(case.prelude[1])
        f.write("Definition c0 : ecase := %s.\n" % case.term)
        f.write("Eval vm_compute in (map verdict [c0]).\n")
    rc, out, err = coqc_big(path)
    if rc != 0:
        return ("coq-error", (out + err)[-1500:])
    vs = parse_verdicts(common.coq_outputs(out)[-1])
    common._cleanup_v(path)
    return vs[0]


# ----------------------------------------------------------------------------------------------------------
# design sources
# ----------------------------------------------------------------------------------------------------------

HDR = ("import cohdl\n"
       "from cohdl import Bit, BitVector, Unsigned, Signed, Port, Signal, Variable, Temporary, Array, Null, Full, "
       "select_with\n"
       "from cohdl import std\n\n")

RESERVED_POOL = ["signal", "buffer", "process", "begin", "end", "type", "of", "to", "downto", "register", "bus",
                 "label", "open", "range", "next", "exit", "all", "abs", "mod", "out", "port", "entity", "variable",
                 "case", "others", "null", "select", "then", "loop", "default", "Signal", "BUFFER", "Process"]
PYKW_POOL = ["in", "is", "for", "if", "not", "and", "or", "with", "else", "while", "return"]     # name= strings only
PREDEF_POOL = PREDEF_TYPES + PREDEF_FUNCS + PREDEF_LITS + PREDEF_LIBS + ["To_Integer", "BOOLEAN", "Rising_Edge",
                                                                         "RESIZE", "True", "Work"]
UNDERSCORE_POOL = ["_x", "x_", "_x_", "x__y", "a__b", "y___z", "_", "q1_", "_q2"]
UNDERSCORE_STR_POOL = ["__x", "x__", "__"]                                                       # name= strings only


def naming_design(rng, idx):
    """one design of the NAMING generator: the names of ports / signals / variables / processes / entities are drawn
    from pools of reserved, predefined, generated, underscore-decorated and colliding names"""
    slots = {"clk": "clk", "a": "a", "b": "b", "i": "i", "o": "o", "q": "q", "r": "r",       # ports
             "s": "s", "t": "t", "v": "v",                                                   # signals, variable
             "comb": "comb", "seq": "seq", "co": "co",                                       # contexts
             "Top": "Top%d" % idx, "Sub": "Sub"}
    port_slots = ["a", "b", "i", "o", "q", "r", "clk"]
    str_slots = ["s", "t", "v"]
    fn_slots = ["comb", "seq", "co"]
    ent_slots = ["Top", "Sub"]
    feats = {"sub": rng.random() < 0.4, "coro": rng.random() < 0.6, "var": rng.random() < 0.7,
             "idx": rng.random() < 0.7, "shift": rng.random() < 0.5, "cmp": rng.random() < 0.6,
             "reserved": None}
    special = []
    nspecial = rng.choice([1, 1, 2, 2, 3])
    for _ in range(nspecial):
        kind = rng.choice(["reserved", "predefined", "generated", "underscore", "case", "pykw", "collide", "userres"])
        slot = rng.choice(port_slots + str_slots * 2 + fn_slots + ent_slots)
        name = None
        if kind == "reserved":
            name = rng.choice(RESERVED_POOL)
        elif kind == "predefined":
            name = rng.choice(PREDEF_POOL)
        elif kind == "generated":
            cands = ["buffer_" + slots["o"], "buffer_" + slots["q"], "temp", "temp1", "temp2", "temp3", "state_0",
                     "state_1", "s_" + slots["co"], "state_" + slots["co"], "comp_" + slots["Sub"],
                     "arch_" + slots["Top"], "array_type", "proc", "sig", "var", "inst", "concurrent",
                     "cohdl_bool_to_std_logic", "inp"]
            name = rng.choice(cands)
            if name in ("state_0", "state_1") or name.startswith(("s_", "state_")):
                feats["coro"] = True
            if name.startswith("comp_"):
                feats["sub"] = True
        elif kind == "underscore":
            name = rng.choice(UNDERSCORE_POOL + (UNDERSCORE_STR_POOL if slot in str_slots else []))
        elif kind == "pykw":
            slot = rng.choice(str_slots)
            name = rng.choice(PYKW_POOL)
        elif kind in ("case", "collide"):
            other = rng.choice([k for k in slots if k != slot and k not in ent_slots])
            base = slots[other]
            name = base if kind == "collide" else (base.upper() if base.upper() != base else base.lower())
            if name == base and slot not in str_slots:
                name = base.capitalize() if base.capitalize() != base else base + "X"
        elif kind == "userres":
            other = rng.choice(str_slots + fn_slots)
            base = slots[other]
            feats["reserved"] = [rng.choice([base, base.upper(), base.capitalize()])]
            special.append((kind, other, feats["reserved"][0]))
            continue
        if slot in port_slots + fn_slots + ent_slots:
            if not re.fullmatch(r"[A-Za-z_][A-Za-z0-9_]*", name) or name in PYKW_POOL or name in ("None", "True", "False") \
                    or name.startswith("__"):
                continue
            # python attribute / function names must stay distinct (python would overwrite)
            others = [slots[k] for k in (port_slots if slot in port_slots else fn_slots if slot in fn_slots else ent_slots)
                      if k != slot]
            if name in others:
                continue
            if slot in fn_slots and name in ("self",):
                continue
        slots[slot] = name
        special.append((kind, slot, name))
    S = slots
    L = []
    L.append(HDR)
    if feats["sub"]:
        L.append("class %s(cohdl.Entity):\n    x = Port.input(Bit)\n    y = Port.output(Bit)\n\n"
                 "    def architecture(self):\n        @std.concurrent\n        def logic():\n"
                 "            self.y <<= ~self.x\n\n" % S["Sub"])
    L.append("class %s(cohdl.Entity):\n" % S["Top"])
    L.append("    %s = Port.input(Bit)\n    %s = Port.input(Bit)\n    %s = Port.input(Unsigned[4])\n"
             "    %s = Port.input(Unsigned[2])\n    %s = Port.output(Bit)\n    %s = Port.output(Unsigned[4])\n"
             "    %s = Port.output(Unsigned[4])\n\n" % (S["clk"], S["a"], S["b"], S["i"], S["o"], S["q"], S["r"]))
    L.append("    def architecture(self):\n")
    L.append("        sig_s = Signal[Bit](name=%r)\n        sig_t = Signal[Unsigned[4]](name=%r)\n" % (S["s"], S["t"]))
    if feats["sub"]:
        L.append("        %s(x=self.%s, y=sig_s)\n" % (S["Sub"], S["a"]))
    L.append("\n        @std.concurrent\n        def %s():\n" % S["comb"])
    if not feats["sub"]:
        L.append("            sig_s.next = self.%s\n" % S["a"])
    L.append("            sig_t.next = self.%s\n" % S["i"])
    if feats["idx"]:
        L.append("            self.%s <<= self.%s[self.%s]\n" % (S["o"], S["b"], S["i"]))
    else:
        L.append("            self.%s <<= sig_s\n" % S["o"])
    L.append("\n        @std.sequential(std.Clock(self.%s))\n        def %s():\n" % (S["clk"], S["seq"]))
    if feats["var"]:
        L.append("            var_v = Variable[Unsigned[4]](name=%r)\n            var_v @= sig_t + 1\n" % S["v"])
        src = "var_v"
    else:
        src = "sig_t"
    rhs = "%s << 1" % src if feats["shift"] else src
    if feats["cmp"]:
        L.append("            if self.%s == 3:\n                self.%s <<= %s\n            else:\n"
                 "                self.%s <<= %s\n" % (S["b"], S["q"], rhs, S["q"], src))
    else:
        L.append("            self.%s <<= %s\n" % (S["q"], rhs))
    if feats["coro"]:
        L.append("\n        @std.sequential(std.Clock(self.%s))\n        async def %s():\n"
                 "            self.%s <<= self.%s\n            await sig_s\n            self.%s <<= Null\n"
                 % (S["clk"], S["co"], S["r"], S["b"], S["r"]))
    else:
        L.append("\n        @std.concurrent\n        def drive_r():\n            self.%s <<= self.%s\n" % (S["r"], S["b"]))
    return {"name": "nm%04d" % idx, "source": "".join(L), "entity": S["Top"], "reserved": feats["reserved"],
            "meta": {"gen": "naming", "special": special, "features": {k: v for k, v in feats.items()}}}


# expression generator: (statement template, ports used) ; {w} {w2} widths
def _vec(kind, w):
    return "%s[%d]" % ({"U": "Unsigned", "S": "Signed", "B": "BitVector"}[kind], w)


def expr_statements(rng, tier):
    """list of dicts {ports: {name: (dir, type)}, body: [lines], ctx: 'concurrent'|'sequential', tag}"""
    out = []
    W = [1, 2, 3, 8]

    def add(tag, ports, body, ctx="concurrent", pre=None, extra=None):
        out.append({"tag": tag, "ports": ports, "body": body, "ctx": ctx, "pre": pre or [], "extra": extra or []})

    for w in W:
        for w2 in W:
            for k in "US":
                if k == "S" and (w < 2 or w2 < 2):
                    continue
                wm = max(w, w2)
                for op, pyop in (("add", "+"), ("sub", "-")):
                    add("%s_%s%d_%s%d" % (op, k, w, k, w2), {"a": ("in", _vec(k, w)), "b": ("in", _vec(k, w2)),
                                                              "o": ("out", _vec(k, wm))}, ["self.o <<= self.a %s self.b" % pyop])
                add("mul_%s%d_%s%d" % (k, w, k, w2), {"a": ("in", _vec(k, w)), "b": ("in", _vec(k, w2)),
                                                      "o": ("out", _vec(k, w + w2))}, ["self.o <<= self.a * self.b"])
                for op, pyop in (("div", "//"), ("mod", "%")):
                    add("%s_%s%d_%s%d" % (op, k, w, k, w2), {"a": ("in", _vec(k, w)), "b": ("in", _vec(k, w2)),
                                                              "o": ("out", _vec(k, wm))}, ["self.o <<= self.a %s self.b" % pyop])
                for cmp_ in ("==", "!=", "<", "<=", ">", ">="):
                    add("cmp%s_%s%d_%s%d" % (cmp_, k, w, k, w2), {"a": ("in", _vec(k, w)), "b": ("in", _vec(k, w2)),
                                                                  "o": ("out", "Bit")}, ["self.o <<= self.a %s self.b" % cmp_])
                if w2 > w:
                    add("widen_%s%d_%s%d" % (k, w, k, w2), {"a": ("in", _vec(k, w)), "o": ("out", _vec(k, w2))},
                        ["self.o <<= self.a"])
                    add("widen_seq_%s%d_%s%d" % (k, w, k, w2), {"clk": ("in", "Bit"), "a": ("in", _vec(k, w)),
                                                                "o": ("out", _vec(k, w2))}, ["self.o <<= self.a"], "sequential")
            for k1 in "BUS":
                for k2 in "BUS" + "b":
                    t2 = "Bit" if k2 == "b" else _vec(k2, w2)
                    ww = w + (1 if k2 == "b" else w2)
                    add("concat_%s%d_%s%d" % (k1, w, k2, w2), {"a": ("in", _vec(k1, w)), "b": ("in", t2),
                                                               "o": ("out", _vec("B", ww))}, ["self.o <<= self.a @ self.b"])
            # U[w] <- U[w2] unsigned to signed and back through views
            if w == w2:
                for k1, k2, view in (("U", "S", "signed"), ("S", "U", "unsigned"), ("U", "B", "bitvector"), ("B", "U", "unsigned"),
                                     ("B", "S", "signed"), ("S", "B", "bitvector")):
                    add("view_%s%d_%s" % (k1, w, view), {"a": ("in", _vec(k1, w)), "o": ("out", _vec(k2, w))},
                        ["self.o <<= self.a.%s" % view])
                    add("viewtgt_%s%d_%s" % (k1, w, view), {"a": ("in", _vec(k2, w)), "o": ("out", _vec(k1, w))},
                        ["self.o.%s <<= self.a" % view])
        for k in "BUS":
            add("inv_%s%d" % (k, w), {"a": ("in", _vec(k, w)), "o": ("out", _vec(k, w))}, ["self.o <<= ~self.a"])
            for op in "&|^":
                add("bit%s_%s%d" % (op, k, w), {"a": ("in", _vec(k, w)), "b": ("in", _vec(k, w)), "o": ("out", _vec(k, w))},
                    ["self.o <<= self.a %s self.b" % op])
            add("ifexpr_%s%d" % (k, w), {"a": ("in", _vec(k, w)), "b": ("in", _vec(k, w)), "c": ("in", "Bit"),
                                         "o": ("out", _vec(k, w))}, ["self.o <<= self.a if self.c else self.b"])
            add("boolcast_%s%d" % (k, w), {"a": ("in", _vec(k, w)), "o": ("out", "Bit")}, ["self.o <<= bool(self.a)"])
            add("null_full_%s%d" % (k, w), {"c": ("in", "Bit"), "o": ("out", _vec(k, w))},
                ["self.o <<= Null if self.c else Full"])
            for j in sorted({0, w - 1, w // 2}):
                add("idx_%s%d_%d" % (k, w, j), {"a": ("in", _vec(k, w)), "o": ("out", "Bit")}, ["self.o <<= self.a[%d]" % j])
                add("idxtgt_%s%d_%d" % (k, w, j), {"a": ("in", "Bit"), "o": ("out", _vec(k, w))},
                    ["self.o <<= Null", "self.o[%d] <<= self.a" % j], "sequential")
            if w >= 2:
                iw = 1 if w == 2 else (2 if w == 3 else 3)
                add("rtidx_%s%d" % (k, w), {"a": ("in", _vec(k, w)), "i": ("in", _vec("U", iw)), "o": ("out", "Bit")},
                    ["self.o <<= self.a[self.i]"])
                add("rtidxtgt_%s%d" % (k, w), {"clk": ("in", "Bit"), "a": ("in", "Bit"), "i": ("in", _vec("U", iw)),
                                               "o": ("out", _vec(k, w))}, ["self.o[self.i] <<= self.a"], "sequential")
                for hi, lo in sorted({(w - 1, 1), (w - 2, 0), (w - 1, w - 1), (0, 0)}):
                    sw = hi - lo + 1
                    add("slice_%s%d_%d_%d" % (k, w, hi, lo), {"a": ("in", _vec(k, w)), "o": ("out", _vec("B", sw))},
                        ["self.o <<= self.a[%d:%d]" % (hi, lo)])
                    add("sliceu_%s%d_%d_%d" % (k, w, hi, lo), {"a": ("in", _vec(k, w)), "o": ("out", _vec("U", sw))},
                        ["self.o <<= self.a[%d:%d].unsigned" % (hi, lo)])
                    add("slicetgt_%s%d_%d_%d" % (k, w, hi, lo), {"clk": ("in", "Bit"), "a": ("in", _vec("B", sw)),
                                                                 "o": ("out", _vec(k, w))},
                        ["self.o[%d:%d] <<= self.a" % (hi, lo)], "sequential")
        for k in "US":
            if k == "S" and w < 2:
                continue
            add("neg_%s%d" % (k, w), {"a": ("in", _vec(k, w)), "o": ("out", _vec(k, w))}, ["self.o <<= -self.a"])
            add("neg_seq_%s%d" % (k, w), {"clk": ("in", "Bit"), "a": ("in", _vec(k, w)), "o": ("out", _vec(k, w))},
                ["self.o <<= -self.a"], "sequential")
            if k == "S":
                add("abs_S%d" % w, {"a": ("in", _vec(k, w)), "o": ("out", _vec(k, w))}, ["self.o <<= abs(self.a)"])
            for n in (0, 1, w):
                add("shl_%s%d_%d" % (k, w, n), {"a": ("in", _vec(k, w)), "o": ("out", _vec(k, w))}, ["self.o <<= self.a << %d" % n])
                add("shr_%s%d_%d" % (k, w, n), {"a": ("in", _vec(k, w)), "o": ("out", _vec(k, w))}, ["self.o <<= self.a >> %d" % n])
            add("shl_rt_%s%d" % (k, w), {"a": ("in", _vec(k, w)), "n": ("in", _vec("U", 2)), "o": ("out", _vec(k, w))},
                ["self.o <<= self.a << self.n"])
            add("shr_rt_%s%d" % (k, w), {"a": ("in", _vec(k, w)), "n": ("in", _vec("U", 2)), "o": ("out", _vec(k, w))},
                ["self.o <<= self.a >> self.n"])
            lits = [0, 1, (1 << w) - 1] if k == "U" else [0, 1, -1]
            for lit in lits:
                if k == "S" and w < 2 and lit == 1:
                    continue
                for op in ("+", "-", "*"):
                    ow = w + w if op == "*" else w
                    add("int%s_%s%d_%d" % (op, k, w, lit), {"a": ("in", _vec(k, w)), "o": ("out", _vec(k, ow))},
                        ["self.o <<= self.a %s %d" % (op, lit)])
                    add("rint%s_%s%d_%d" % (op, k, w, lit), {"a": ("in", _vec(k, w)), "o": ("out", _vec(k, ow))},
                        ["self.o <<= %d %s self.a" % (lit, op)])
                for cmp_ in ("==", "<", ">="):
                    add("cmpint%s_%s%d_%d" % (cmp_, k, w, lit), {"a": ("in", _vec(k, w)), "o": ("out", "Bit")},
                        ["self.o <<= self.a %s %d" % (cmp_, lit)])
                add("intassign_%s%d_%d" % (k, w, lit), {"c": ("in", "Bit"), "o": ("out", _vec(k, w))},
                    ["self.o <<= %d" % lit])
            add("toint_%s%d" % (k, w), {"a": ("in", _vec(k, w)), "b": ("in", _vec(k, w)), "o": ("out", _vec(k, w))},
                ["self.o <<= self.b"], "concurrent", ["isig = Signal[int](name='isig')", "ISIG"])
        # select_with / match on vectors
        if w <= 3:
            keys = [format(v, "b").zfill(w) for v in range(min(1 << w, 4))]
            for k in "BU":
                d = ", ".join('"%s": self.a' % x if i % 2 == 0 else '"%s": self.b' % x for i, x in enumerate(keys))
                add("selectwith_%s%d" % (k, w), {"s": ("in", _vec("B", w)), "a": ("in", _vec(k, 3)), "b": ("in", _vec(k, 3)),
                                                 "o": ("out", _vec(k, 3))},
                    ["self.o <<= select_with(self.s, {%s}, default=self.b)" % d])
                lines = ["match self.s:"]
                for i, x in enumerate(keys[:-1] if len(keys) > 1 else keys):
                    lines += ['    case "%s":' % x, "        self.o <<= self.%s" % ("a" if i % 2 == 0 else "b")]
                lines += ["    case _:", "        self.o <<= Null"]
                add("match_%s%d" % (k, w), {"clk": ("in", "Bit"), "s": ("in", _vec("B", w)), "a": ("in", _vec(k, 3)),
                                            "b": ("in", _vec(k, 3)), "o": ("out", _vec(k, 3))}, lines, "sequential")
    for k in "UB":
        add("seqall_%s3" % k, {"a": ("in", _vec(k, 3)), "b": ("in", _vec(k, 3)), "c": ("in", "Bit"), "o": ("out", _vec(k, 3))},
            ["if self.c:", "    self.o <<= self.a", "else:", "    self.o <<= self.b"], "seqall")
        add("seqall_idx_%s3" % k, {"a": ("in", _vec(k, 3)), "i": ("in", _vec("U", 2)), "o": ("out", "Bit")},
            ["self.o <<= self.a[self.i]"], "seqall")
    # clock-less sequential processes (sensitivity "all"): every operand of an if-expression / select_with, also the
    # else / default operand that is a plain signal or port read nowhere else, must be in the computed sensitivity list
    for k in "UB":
        add("seqall_ifexpr_%s3" % k, {"a": ("in", _vec(k, 3)), "b": ("in", _vec(k, 3)), "c": ("in", "Bit"), "o": ("out", _vec(k, 3))},
            ["self.o <<= self.a if self.c else self.b"], "seqall")
        add("seqall_select_%s3" % k, {"s": ("in", _vec("B", 2)), "a": ("in", _vec(k, 3)), "b": ("in", _vec(k, 3)),
                                       "d": ("in", _vec(k, 3)), "o": ("out", _vec(k, 3))},
            ['self.o <<= select_with(self.s, {"00": self.a, "01": self.b}, default=self.d)'], "seqall")
    add("seqall_ifexpr_Bit", {"a": ("in", "Bit"), "b": ("in", "Bit"), "c": ("in", "Bit"), "o": ("out", "Bit")},
        ["self.o <<= self.a if self.c else self.b"], "seqall")
    add("seqall_ifexpr_sig_U3", {"a": ("in", _vec("U", 3)), "c": ("in", "Bit"), "o": ("out", _vec("U", 3))},
        ["self.o <<= self.a if self.c else loc"], "seqall",
        ["loc = Signal[Unsigned[3]](name='loc')"], ["loc.next = self.a + 1"])
    add("seqall_sig_U3", {"a": ("in", _vec("U", 3)), "c": ("in", "Bit"), "o": ("out", _vec("U", 3))},
        ["if self.c:", "    self.o <<= loc", "else:", "    self.o <<= loc + 1"], "seqall",
        ["loc = Signal[Unsigned[3]](name='loc')"], ["loc.next = self.a"])
    add("readout_U3", {"clk": ("in", "Bit"), "a": ("in", _vec("U", 3)), "o": ("out", _vec("U", 3))},
        ["self.o <<= self.o + self.a"], "sequential")
    add("readout_conc_B3", {"a": ("in", _vec("B", 3)), "o": ("out", _vec("B", 3)), "p": ("out", _vec("B", 3))},
        ["self.o <<= ~self.a", "self.p <<= self.o"])
    # Bit / bool
    for op in "&|^":
        add("bit%s_Bit" % op, {"a": ("in", "Bit"), "b": ("in", "Bit"), "o": ("out", "Bit")}, ["self.o <<= self.a %s self.b" % op])
    add("inv_Bit", {"a": ("in", "Bit"), "o": ("out", "Bit")}, ["self.o <<= ~self.a"])
    add("not_Bit", {"a": ("in", "Bit"), "o": ("out", "Bit")}, ["self.o <<= not self.a"])
    add("and_bool", {"a": ("in", "Bit"), "b": ("in", _vec("U", 3)), "o": ("out", "Bit")}, ["self.o <<= self.a and (self.b == 2)"])
    add("or_bool", {"a": ("in", "Bit"), "b": ("in", _vec("U", 3)), "o": ("out", "Bit")}, ["self.o <<= (self.b > 2) or not self.a"])
    add("cmp_Bit", {"a": ("in", "Bit"), "b": ("in", "Bit"), "o": ("out", "Bit")}, ["self.o <<= self.a == self.b"])
    add("ifexpr_Bit", {"a": ("in", "Bit"), "b": ("in", "Bit"), "c": ("in", "Bit"), "o": ("out", "Bit")},
        ["self.o <<= self.a if self.c else self.b"])
    add("concat_Bit_Bit", {"a": ("in", "Bit"), "b": ("in", "Bit"), "o": ("out", _vec("B", 2))}, ["self.o <<= self.a @ self.b"])
    add("bool_var", {"clk": ("in", "Bit"), "a": ("in", _vec("U", 3)), "o": ("out", "Bit")},
        ["v = Variable[bool](name='bv')", "v @= self.a == 3", "self.o <<= v"], "sequential")
    add("array_rw", {"clk": ("in", "Bit"), "a": ("in", _vec("U", 3)), "i": ("in", _vec("U", 1)), "o": ("out", _vec("U", 3))},
        ["mem[self.i] <<= self.a", "self.o <<= mem[0]"], "sequential", ["mem = Signal[Array[Unsigned[3], 2]](name='mem')"])
    add("enum_match", {"clk": ("in", "Bit"), "a": ("in", "Bit"), "o": ("out", _vec("U", 2))},
        ["match st:", "    case Col.red:", "        self.o <<= 1", "        st.next = Col.green", "    case Col.green:",
         "        self.o <<= 2", "        if self.a:", "            st.next = Col.blue", "    case _:", "        self.o <<= 0",
         "        st.next = Col.red"], "sequential", ["st = Signal[Col](Col.red, name='st')", "ENUM"])
    add("enum_cmp", {"clk": ("in", "Bit"), "a": ("in", "Bit"), "o": ("out", "Bit")},
        ["self.o <<= st == Col.blue", "st.next = Col.blue if self.a else Col.red"], "sequential",
        ["st = Signal[Col](Col.red, name='st')", "ENUM"])
    return out


def expr_design(idx, stmts):
    """pack statements (each with its own ports, renamed) into one entity"""
    ports = []
    pre = []
    blocks = []
    need_enum = False
    clk = False
    for j, st in enumerate(stmts):
        ren = {}
        for pn, (dr, ty) in st["ports"].items():
            if pn == "clk":
                clk = True
                continue
            new = "%s%d" % (pn, j)
            ren[pn] = new
            ports.append("    %s = Port.%s(%s)\n" % (new, "input" if dr == "in" else "output", ty))

        def rn(line):
            return re.sub(r"self\.(\w+)", lambda m: "self." + ren.get(m.group(1), m.group(1)), line)
        loc = {}
        for p in st["pre"]:
            if p == "ENUM":
                need_enum = True
                continue
            if p == "ISIG":
                continue
            m = re.match(r"(\w+) = ", p)
            loc[m.group(1)] = "%s_%d" % (m.group(1), j)
            pre.append("        " + re.sub(r"name='(\w+)'", lambda mm: "name='%s_%d'" % (mm.group(1), j),
                                          p.replace(m.group(1) + " = ", loc[m.group(1)] + " = ", 1)) + "\n")

        def rl(line):
            for a, b in loc.items():
                line = re.sub(r"\b%s\b" % a, b, line)
            return line
        body = [rl(rn(l)) for l in st["body"]]
        if "ISIG" in st["pre"]:
            body = ["%s.next = self.%s" % (loc["isig"], ren["a"]), "self.%s <<= %s" % (ren["o"], loc["isig"])]
        if st.get("extra"):
            blocks.append("        @std.concurrent\n        def e%d():\n" % j +
                          "".join("            %s\n" % rl(rn(l)) for l in st["extra"]) + "\n")
        if st["ctx"] == "seqall":
            blocks.append("        @std.sequential\n        def q%d():\n" % j +
                          "".join("            %s\n" % l for l in body) + "\n")
        elif st["ctx"] == "sequential":
            clk = True
            blocks.append("        @std.sequential(std.Clock(self.clk))\n        def p%d():\n" % j +
                          "".join("            %s\n" % l for l in body) + "\n")
        else:
            blocks.append("        @std.concurrent\n        def c%d():\n" % j + "".join("            %s\n" % l for l in body) + "\n")
    src = HDR
    if need_enum:
        src += "class Col(cohdl.enum.Enum):\n    red = 1\n    green = 2\n    blue = 3\n\n"
    src += "class X%d(cohdl.Entity):\n" % idx
    if clk:
        src += "    clk = Port.input(Bit)\n"
    src += "".join(ports) + "\n    def architecture(self):\n" + "".join(pre) + "\n" + "".join(blocks)
    return {"name": "ex%04d" % idx, "source": src, "entity": "X%d" % idx, "reserved": None,
            "meta": {"gen": "expr", "tags": [s["tag"] for s in stmts]}}


CORPUS = [
    # (name, entity, reserved, source)
    # assignments through typed views of objects of another vector kind (casts + resize of the right width on both sides)
    ("corp_view_targets", "E0", None, HDR + """class E0(cohdl.Entity):
    clk = Port.input(Bit)
    s3 = Port.input(Signed[3])
    u3 = Port.input(Unsigned[3])
    b8 = Port.input(BitVector[8])
    ob = Port.output(BitVector[8])
    oc = Port.output(BitVector[8])
    ou = Port.output(Unsigned[8])
    os = Port.output(Signed[8])
    od = Port.output(BitVector[3])
    def architecture(self):
        r = Signal[BitVector[8]]()
        @std.sequential(std.Clock(self.clk))
        def proc():
            self.ob.signed <<= self.s3
            self.oc.unsigned <<= self.u3
            self.ou.bitvector <<= self.b8
            self.os.unsigned <<= self.u3
            r.signed <<= self.s3
            self.od.signed <<= self.s3
"""),
    # repeated choices (fixed by dba8bb6: now rejected; before, `case` / `with select` listed a choice twice)
    ("corp_dup_match", "E0", None, HDR + """class E0(cohdl.Entity):
    clk = Port.input(Bit)
    a = Port.input(Unsigned[2])
    x = Port.input(Bit)
    y = Port.input(Bit)
    o = Port.output(Bit)
    def architecture(self):
        @std.sequential(std.Clock(self.clk))
        def proc():
            match self.a:
                case 1:
                    self.o <<= self.x
                case 1:
                    self.o <<= self.y
                case _:
                    self.o <<= False
"""),
    ("corp_dup_select", "E0", None, HDR + """class E0(cohdl.Entity):
    a = Port.input(Unsigned[2])
    x = Port.input(Bit)
    y = Port.input(Bit)
    p = Port.output(Bit)
    def architecture(self):
        @std.concurrent
        def logic():
            self.p <<= cohdl.select_with(self.a, {1: self.x, Unsigned[2](1): self.y, "01": self.x}, default=self.y)
"""),
    ("corp_select_partial_conc", "E0", None, HDR + """class E0(cohdl.Entity):
    a = Port.input(BitVector[2])
    x = Port.input(Bit)
    y = Port.input(Bit)
    p = Port.output(Bit)
    def architecture(self):
        @std.concurrent
        def logic():
            self.p <<= cohdl.select_with(self.a, {"00": self.x, "01": self.y})
"""),
    ("corp_select_full_conc", "E0", None, HDR + """class E0(cohdl.Entity):
    a = Port.input(BitVector[2])
    x = Port.input(Bit)
    y = Port.input(Bit)
    p = Port.output(Bit)
    def architecture(self):
        @std.concurrent
        def logic():
            self.p <<= cohdl.select_with(self.a, {"00": self.x, "01": self.y, "10": self.x ^ self.y, "11": self.x & self.y})
"""),
    # extern entities of other libraries (fixed by 5a3cb19: the library clause was never emitted); generic maps are
    # outside the reader's subset, so the extern units have ports only
    ("corp_extern_libs", "E0", None, HDR + """ExtA = type("ExtA", (cohdl.Entity,), {"a": Port.input(Bit), "q": Port.output(Bit)}, extern=True, attributes={"path": "liba"})
ExtB = type("ExtB", (cohdl.Entity,), {"a": Port.input(Bit), "q": Port.output(Bit)}, extern=True, attributes={"path": "Libzeta"})

class Inner(cohdl.Entity):
    a = Port.input(Bit)
    q = Port.output(Bit)
    def architecture(self):
        ExtB(a=self.a, q=self.q)

class E0(cohdl.Entity):
    a = Port.input(Bit)
    q = Port.output(Bit)
    r = Port.output(Bit)
    s = Port.output(Bit)
    t = Port.output(Bit)
    def architecture(self):
        ExtA(a=self.a, q=self.q)
        ExtB(a=self.a, q=self.r)
        ExtA(a=self.r, q=self.s)
        Inner(a=self.a, q=self.t)
"""),
    ("corp_known3", "E1", None, HDR + """class E1(cohdl.Entity):
    clk = Port.input(Bit)
    a = Port.input(Unsigned[4])
    i = Port.input(Unsigned[2])
    state_0 = Port.input(Bit)
    o = Port.output(Bit)
    p = Port.output(Unsigned[4])
    def architecture(self):
        to_integer = Signal[Unsigned[2]](name="to_integer")
        @std.concurrent
        def l():
            to_integer.next = self.i
            self.o <<= self.a[to_integer]
        @std.sequential(std.Clock(self.clk))
        async def co():
            self.p <<= self.a
            await self.state_0
            self.p <<= -self.a
"""),
    ("corp_hide_to_integer", "E2", None, HDR + """class E2(cohdl.Entity):
    a = Port.input(Unsigned[4])
    i = Port.input(Unsigned[2])
    o = Port.output(Bit)
    def architecture(self):
        s = Signal[Unsigned[2]](name="to_integer")
        @std.concurrent
        def l():
            s.next = self.i
            self.o <<= self.a[s]
"""),
    ("corp_enumlit_port", "E3", None, HDR + """class E3(cohdl.Entity):
    clk = Port.input(Bit)
    state_0 = Port.input(Bit)
    o = Port.output(Bit)
    def architecture(self):
        @std.sequential(std.Clock(self.clk))
        async def co():
            self.o <<= Null
            await self.state_0
            self.o <<= Full
"""),
    ("corp_uminus_unsigned", "E4", None, HDR + """class E4(cohdl.Entity):
    a = Port.input(Unsigned[3])
    o = Port.output(Unsigned[3])
    def architecture(self):
        @std.concurrent
        def l():
            self.o <<= -self.a
"""),
    ("corp_port_raw_names", "foo", None, HDR + """class foo(cohdl.Entity):
    signal = Port.input(Bit)
    _x = Port.input(Bit)
    Foo = Port.input(Bit)
    x__y = Port.input(Bit)
    y_ = Port.output(Bit)
    ABC = Port.input(Bit)
    abc = Port.output(Bit)
    def architecture(self):
        s = Signal[Bit](name="_s__t_")
        t = Signal[Bit](name="S__T")
        @std.concurrent
        def process():
            s.next = self.signal & self._x & self.Foo & self.x__y
            t.next = s
            self.y_ <<= t
            self.abc <<= self.ABC
"""),
    ("corp_enum_literal_vs_signal", "E5", None, HDR + """class Col(cohdl.enum.Enum):
    red = 1
    GREEN = 2

class E5(cohdl.Entity):
    clk = Port.input(Bit)
    o = Port.output(Bit)
    def architecture(self):
        green = Signal[Col](Col.red, name="green")
        @std.sequential(std.Clock(self.clk))
        def proc():
            self.o <<= green == Col.GREEN
            green.next = Col.GREEN
"""),
    ("corp_user_reserved_case", "E6", ["Keep"], HDR + """class E6(cohdl.Entity):
    a = Port.input(Bit)
    o = Port.output(Bit)
    def architecture(self):
        s = Signal[Bit](name="keep")
        @std.concurrent
        def l():
            s.next = self.a
            self.o <<= s
"""),
    ("corp_hierarchy_case_collision", "SUB", None, HDR + """class Sub(cohdl.Entity):
    x = Port.input(Bit)
    y = Port.output(Bit)
    def architecture(self):
        @std.concurrent
        def l():
            self.y <<= ~self.x

class SUB(cohdl.Entity):
    a = Port.input(Bit)
    o = Port.output(Bit)
    def architecture(self):
        Sub(x=self.a, y=self.o)
"""),
    ("corp_signal_named_work", "E7", None, HDR + """class Sub(cohdl.Entity):
    x = Port.input(Bit)
    y = Port.output(Bit)
    def architecture(self):
        @std.concurrent
        def l():
            self.y <<= ~self.x

class E7(cohdl.Entity):
    a = Port.input(Bit)
    o = Port.output(Bit)
    def architecture(self):
        w = Signal[Bit](name="work")
        Sub(x=self.a, y=w)
        @std.concurrent
        def l():
            self.o <<= w
"""),
    ("corp_plain_ok", "E8", None, HDR + """class E8(cohdl.Entity):
    clk = Port.input(Bit)
    a = Port.input(Unsigned[4])
    b = Port.input(Signed[4])
    i = Port.input(Unsigned[2])
    o = Port.output(Bit)
    q = Port.output(Signed[8])
    def architecture(self):
        @std.concurrent
        def l():
            self.o <<= self.a[self.i]
        @std.sequential(std.Clock(self.clk))
        def p():
            if self.a == 3:
                self.q <<= self.b
            else:
                self.q <<= -self.b
"""),
]


# ----------------------------------------------------------------------------------------------------------
# classification of a failing rule (diagnosis only; the verdict itself comes from Coq)
# ----------------------------------------------------------------------------------------------------------

LIVE_RESERVED = set()
# the recorded scopes are compared with Names.uniquify = the CURRENT complete_setup (strip, collapse underscores,
# fallback for an empty name; /repo 3102177).  C06_MODEL=strip compares with the code as it was before (development only).
MODEL = os.environ.get("C06_MODEL", "current")


def name_class(n):
    low = n.lower()
    if not re.fullmatch(r"[A-Za-z](?:_?[A-Za-z0-9])*", n):
        if n.startswith("_"):
            return "leading_underscore"
        if n.endswith("_"):
            return "trailing_underscore"
        if "__" in n:
            return "double_underscore"
        return "illegal_identifier"
    if low in PREDEF:
        return "predefined"
    if low in LIVE_RESERVED or low in VHDL93:
        return "reserved"
    return "plain"


VHDL93 = set("""abs access after alias all and architecture array assert attribute begin block body buffer bus case
component configuration constant disconnect downto else elsif end entity exit file for function generate generic group
guarded if impure in inertial inout is label library linkage literal loop map mod nand new next nor not null of on open
or others out package port postponed procedure process pure range record register reject rem report return rol ror
select severity signal shared sla sll sra srl subtype then to transport type unaffected units until use variable wait
when while with xnor xor""".split())


def kinds_of(ent, name):
    ks = sorted({("port" if region == "entity" and kind == "sig" else kind) for region, kind, nm in ent.names
                 if nm.lower() == name.lower()})
    return "+".join(ks)


def has_uminus_unsigned(case):
    """is there a unary minus applied to an unsigned operand in the entity (diagnosis)"""
    ent = case.ent
    tys = {}
    for d in list(ent.ports) + list(ent.signals):
        tys[d.name.lower()] = d.ty
    for c in ent.conc:
        if isinstance(c, R.Process):
            for v in c.vars:
                tys[v.name.lower()] = v.ty

    def kind(e):
        return ExprKind(tys).kind(e)

    found = []

    def walk(e):
        if not isinstance(e, tuple):
            return
        if e and e[0] == "un" and e[1] in ("UNeg", "UAbs") and kind(e[2]) == "uns":
            found.append(pp_expr(e))
        for x in e[1:]:
            if isinstance(x, tuple):
                walk(x)
            elif isinstance(x, list):
                for y in x:
                    walk(y)
    for c in ent.conc:
        if isinstance(c, R.Process):
            walk(("body", c.body))
        elif isinstance(c, tuple):
            walk(c)
    return found


class ExprKind:
    def __init__(self, tys):
        self.tys = tys

    def kind(self, e):
        k = e[0]
        if k == "name":
            t = self.tys.get(e[1].lower())
            return t.vk if t is not None and t.kind == "vec" else None
        if k == "lit":
            return e[1][1] if e[1][0] == "V" else None
        if k == "slice":
            return self.kind(e[1])
        if k == "f1":
            return {"FConvUns": "uns", "FConvSgn": "sgn", "FConvSlv": "slv", "FQualUns": "uns", "FQualSgn": "sgn",
                    "FQualSlv": "slv"}.get(e[1])
        if k == "f2":
            if e[1] in ("FResize", "FShl", "FShr"):
                return self.kind(e[2])
            return {"FToUnsigned": "uns", "FToSigned": "sgn"}.get(e[1])
        if k == "un":
            return self.kind(e[2])
        if k == "bin" and e[1] in ("OAdd", "OSub", "OMul", "ODiv", "OMod", "ORem", "OAnd", "OOr", "OXor"):
            return self.kind(e[2]) or self.kind(e[3])
        return None


def classify(case, rule, bad_conc):
    """-> (key dict, description, details) for a failing rule of an entity"""
    ent = case.ent
    n = case.meta["names"]
    if rule == "idents_ok":
        bad = [x for x in [ent.name, ent.arch] + n["arch"] + [l for ls in n["lits"] for l in ls] +
               [v for vs, _ in n["procs"] for v in vs] if not re.fullmatch(r"[A-Za-z](?:_?[A-Za-z0-9])*", x)]
        b = bad[0] if bad else "?"
        obj = "entity" if b == ent.name else kinds_of(ent, b)
        return ({"rule": rule, "class": name_class(b), "object": obj},
                "declared identifier %r is not a VHDL-93 basic identifier" % b, {"identifiers": bad})
    if rule == "no_reserved":
        bad = [x for x in [ent.name, ent.arch] + n["arch"] + [l for ls in n["lits"] for l in ls] +
               [v for vs, _ in n["procs"] for v in vs] if x.lower() in VHDL93]
        b = bad[0] if bad else "?"
        obj = "entity" if b == ent.name else kinds_of(ent, b)
        return ({"rule": rule, "object": obj}, "declared identifier %r is a reserved word" % b, {"identifiers": bad})
    if rule == "decl_unique":
        import collections
        non = [x.lower() for x in n["fixed"] + n["arch"]]
        dups = [x for x, k in collections.Counter(non).items() if k > 1]
        lits = [l.lower() for ls in n["lits"] for l in ls]
        dups += [x for x in set(lits) if x in non]
        for ls in n["lits"]:
            dups += [x for x, k in collections.Counter(l.lower() for l in ls).items() if k > 1]
        for vs, us in n["procs"]:
            lv = [v.lower() for v in vs]
            dups += [x for x, k in collections.Counter(lv).items() if k > 1]
            dups += [v for v in lv if v in non + lits and v in us]
        d = dups[0] if dups else "?"
        return ({"rule": rule, "kinds": kinds_of(ent, d)},
                "identifier %r is declared more than once in one declarative region (kinds %s)" % (d, kinds_of(ent, d)),
                {"duplicates": sorted(set(dups))})
    if rule == "no_hiding":
        hid = []
        for nm, a, b in n["scoped"]:
            if nm.lower() in PREDEF and any(r == nm.lower() and a < l <= b for r, l in n["relied"]):
                hid.append(nm)
        h = hid[0] if hid else "?"
        obj = "entity" if h == ent.name else kinds_of(ent, h)
        return ({"rule": rule, "object": obj},
                "declared %s %r hides the predefined name the emitted text relies on" % (obj, h), {"hidden": hid})
    if rule in ("wt_design", "case_ok", "sens_ok", "ports_ok"):
        stm = []
        for k in bad_conc[:3]:
            if k < len(case.meta["stmts"]):
                stm.append("\n".join(pp_conc(case.meta["stmts"][k])[:40]))
        cls = "ill_typed"
        if rule == "wt_design":
            um = has_uminus_unsigned(case)
            hidden = [nm for nm, a, b in n["scoped"] if nm.lower() in PREDEF]
            if um:
                cls = "unary_minus_or_abs_on_unsigned"
                stm = um[:3] + stm
            elif hidden:
                cls = "consequence_of_hidden_predefined_name"
        else:
            hidden = [nm for nm, a, b in n["scoped"] if nm.lower() in PREDEF]
            cls = "consequence_of_hidden_predefined_name" if hidden else rule
        return ({"rule": rule, "class": cls}, "rule %s fails (%s)" % (rule, cls), {"statements": stm})
    if rule == "no_user_reserved":
        res = [x.lower() for x in (case.design.get("reserved") or [])]
        bad = [x for x in [ent.name, ent.arch] + n["arch"] + [v for vs, _ in n["procs"] for v in vs] if x.lower() in res]
        return ({"rule": rule, "object": kinds_of(ent, bad[0]) if bad else "?"},
                "declared identifier %r equals (case-insensitively) a name the user reserved (%s)" % (
                    bad[0] if bad else "?", case.design.get("reserved")), {"identifiers": bad})
    if rule == "lib_unique":
        lib = re.findall(r"(?im)^\s*entity\s+(\w+)\s+is\s*$", case.result.get("vhdl", ""))
        return ({"rule": rule}, "two design units of one library have the same name (case-insensitively)", {"entities": lib})
    if rule == "libs_visible":
        used = sorted({i.lib for i in ent.conc if isinstance(i, R.Instance)})
        return ({"rule": rule}, "an instantiated unit names a library that no library clause of the design unit makes visible",
                {"libraries_used": used, "library_clauses": ent.libraries})
    if rule == "assoc_ok":
        return ({"rule": rule}, "a port association is ill-typed", {"associations": case.meta["assoc"]})
    return ({"rule": rule}, "rule %s fails" % rule, {})


def unparsed_key(e: R.Unparsed):
    msg = re.sub(r"'[^']*'|\"[^\"]*\"|\[.*\]|\d+", "_", e.msg)
    return {"rule": "parses", "class": msg.strip()[:60]}


# ----------------------------------------------------------------------------------------------------------
# the check
# ----------------------------------------------------------------------------------------------------------

class Reporter:
    """one VIOLATION per key; further hits are counted"""
    def __init__(self, ck):
        self.ck = ck
        self.seen = {}

    def report(self, key, what, replay, no_input=False):
        k = json.dumps(key, sort_keys=True)
        self.seen[k] = self.seen.get(k, 0) + 1
        if self.seen[k] == 1:
            self.ck.violation(key, what, replay, no_input=no_input)


def design_replay(d, res, extra):
    rep = {"design": d["name"], "entity": d.get("entity"), "source": d.get("source"), "upstream": d.get("upstream"),
           "reserved": d.get("reserved"), "meta": d.get("meta"), "vhdl": (res or {}).get("vhdl"),
           "python": "PYTHONPATH=%s /venv/bin/python -c \"import runpy; from cohdl import std; m = runpy.run_path('<file with source>'); "
                     "print(std.VhdlCompiler.to_string(m['%s']))\"" % (common.REPO, d.get("entity"))}
    rep.update(extra)
    return rep


def tables_phase(ck, rep):
    out = os.path.join(ck.gen, "Tables.v")
    info = common.run_worker("tables.py", {"out": out})
    LIVE_RESERVED.update(x.lower() for x in info["reserved"] + info["additional"])
    rc, o, e = common.coqc(out, extra_q=[(ck.gen, "C06gen")])
    if rc != 0:
        raise RuntimeError("generated Tables.v does not compile: " + (o + e)[-800:])
    hdr = ("From Coq Require Import String List Bool.\nImport ListNotations.\n"
           "From Cohdl Require Import Vhdl.Names Vhdl.TablesRef.\nFrom C06gen Require Import Tables.\nLocal Open Scope string_scope.\n"
           "Definition incl_b (a b : list string) : bool := forallb (fun x => smem x b) a.\n"
           "Definition missing (a b : list string) : list string := filter (fun x => negb (smem x b)) a.\n")
    obligations = [
        ("vhdl93_reserved_in_table", "incl_b vhdl93_reserved live_vhdl_reserved = true",
         "missing vhdl93_reserved live_vhdl_reserved", {"table": "_vhdl_reserved"}),
        ("table_is_lower_case", "forallb (fun w => String.eqb (lower w) w) live_initially_used = true",
         "filter (fun w => negb (String.eqb (lower w) w)) live_initially_used", {"table": "_vhdl_reserved/_additional_reserved", "defect": "not lower case"}),
        ("predefined_used_by_emitter_in_table", "incl_b predefined_used_by_emitter live_initially_used = true",
         "missing predefined_used_by_emitter live_initially_used", {"table": "_additional_reserved", "defect": "predefined names used by the emitter are not reserved"}),
        ("binop_table_agrees", "pairs_eqb live_binop_string binop_string_ref = true", "live_binop_string",
         {"table": "BinOp.operator_string"}),
        ("compare_table_agrees", "pairs_eqb live_compare_string compare_string_ref = true", "live_compare_string",
         {"table": "Compare.operator_string"}),
        ("unaryop_table_agrees", "pairs_eqb live_unaryop_string unaryop_string_ref = true", "live_unaryop_string",
         {"table": "UnaryOp.operator_string"}),
    ]
    files = []
    for name, stmt, diag, key in obligations:
        path = os.path.join(ck.gen, "T_%s.v" % name)
        with open(path, "w") as f:
            f.write(hdr + "Eval vm_compute in (%s).\nTheorem %s : %s.\nProof. vm_compute. reflexivity. Qed.\n" % (diag, name, stmt))
        files.append(path)
    outs = common.coqc_many(files, timeout=600, extra_q=[(ck.gen, "C06gen")])
    # `Require Import Tables` needs the directory on the load path without a prefix
    for (name, stmt, diag, key), path, (rc, o, e) in zip(obligations, files, outs):
        ok = rc == 0
        ck.obligation(ok)
        ck.evaluations += 1
        if ok:
            common._cleanup_v(path)
        else:
            res = common.coq_outputs(o)
            key = dict(key)
            key["rule"] = "tables"
            rep.report(key, "table obligation %s fails: %s" % (name, stmt),
                       {"obligation": name, "statement": stmt, "diagnosis (%s)" % diag: res[0] if res else (o + e)[-600:],
                        "live_tables": info, "file": path})
    ck.cov["tables"] = {"reserved": len(info["reserved"]), "additional_reserved": info["additional"],
                        "binop": info["binop"], "compare": info["compare"], "unaryop": info["unaryop"]}
    return info


def uniquify_phase(ck, rep, compiled, live):
    """model = code for every recorded complete_setup"""
    base = sorted(set(live["reserved"]) | set(live["additional"]))
    bset = set(base)
    terms = []
    owners = []
    for d, res in compiled:
        for sc in res.get("scopes") or []:
            if sc.get("names") is None or any(r is None for r in sc.get("reqs", [None])):
                continue
            if not sc["reqs"]:
                continue
            used = sc["used"]
            extra = [u for u in used if u not in bset]
            if bset <= set(used):
                ut = "(live_initially_used ++ %s)%%list" % coq_strs(extra)
            else:
                ut = coq_strs(used)
            if MODEL != "strip":
                reqs = "[" + "; ".join("(%s, %s)" % (coq_str(a), coq_str(b or "obj")) for a, b in
                                       zip(sc["reqs"], sc.get("fallbacks") or sc["reqs"])) + "]"
            else:
                reqs = coq_strs(sc["reqs"])
            terms.append("(%s, %s, %s)" % (ut, reqs, coq_strs(sc["names"])))
            owners.append((d, res, sc))
    if not terms:
        return
    pre = ("From Coq Require Import String List Bool NArith.\nImport ListNotations.\n"
           "From Cohdl Require Import Vhdl.Names.\nFrom C06gen Require Import Tables.\nLocal Open Scope string_scope.\n"
           "Fixpoint strs_eqb (a b : list string) : bool := match a, b with [] , [] => true | x :: r, y :: r' => "
           "String.eqb x y && strs_eqb r r' | _, _ => false end.\n")
    files = []
    shard = 150
    for si in range(0, len(terms), shard):
        path = os.path.join(ck.gen, "uniq_%04d.v" % (si // shard))
        with open(path, "w") as f:
            f.write(pre + "From Cohdl Require Import Base.Util.\n")
            f.write("Definition cases : list (list string * %s * list string) := [\n  " % (
                "list (string * string)" if MODEL != "strip" else "list string") +
                    ";\n  ".join(terms[si:si + shard]) + "].\n")
            f.write("Eval vm_compute in (bad_indices (fun c => strs_eqb (%s (fst (fst c)) (snd (fst c))) (snd c)) cases).\n"
                    % ("uniquify" if MODEL != "strip" else "uniquify_strip"))
        files.append((si, path))
    outs = common.coqc_many([p for _, p in files], timeout=900, extra_q=[(ck.gen, "C06gen")])
    bad = []
    for (si, path), (rc, o, e) in zip(files, outs):
        if rc != 0:
            raise RuntimeError("coqc failed on %s: %s" % (path, (o + e)[-800:]))
        bad += [si + i for i in common.parse_N_list(common.coq_outputs(o)[-1])]
        common._cleanup_v(path)
    ck.obligation(True, len(terms) - len(bad))
    ck.evaluations += len(terms)
    ck.cov["uniquify_scopes_compared"] = ck.cov.get("uniquify_scopes_compared", 0) + len(terms)
    renamed = 0
    for (d, res, sc) in owners:
        if any(a.strip("_") != b for a, b in zip(sc["reqs"], sc["names"])):
            renamed += 1
            ck.nontrivial("uniq:" + json.dumps([sc["reqs"], sc["names"]]))
    ck.cov["uniquify_scopes_with_renaming"] = ck.cov.get("uniquify_scopes_with_renaming", 0) + renamed
    for i in bad:
        d, res, sc = owners[i]
        ck.obligation(False)
        # specification: the assigned names are legal identifiers, pairwise distinct (case-insensitively) and avoid
        # the used names; a difference that keeps the specification names the correspondence that no longer checks
        low = [x.lower() for x in sc["names"]]
        spec_ok = (len(set(low)) == len(low) and not (set(low) & set(sc["used"]))
                   and all(re.fullmatch(r"[A-Za-z](?:_?[A-Za-z0-9])*", x) for x in sc["names"]))
        rep.report({"rule": "uniquify_model", "spec_violated": not spec_ok},
                   "complete_setup no longer agrees with Names.uniquify" +
                   ("" if spec_ok else " and its result is not a list of distinct, free, legal identifiers"),
                   design_replay(d, res, {"scope": sc, "broken": "correspondence Names.uniquify = VhdlScope.complete_setup"}),
                   no_input=spec_ok)


def run(ck: common.Check, replay=None):
    import time
    t_phase = [time.time()]
    phases = {}

    def phase(name):
        now = time.time()
        phases[name] = round(now - t_phase[0], 1)
        t_phase[0] = now
        ck.cov["phase_s"] = phases
    rep = Reporter(ck)
    if replay is None:
        for f in os.listdir(ck.replay_dir):
            if re.fullmatch(r"v\d+\.json", f):
                os.unlink(os.path.join(ck.replay_dir, f))
    ck.check_props("C06_Properties.v")
    phase("props")
    live = tables_phase(ck, rep)
    phase("tables")
    rng = ck.rng
    quick = ck.tier == "quick"
    designs = []
    if replay is not None and replay.get("source"):
        designs = [{"name": "replay", "source": replay["source"], "entity": replay["entity"],
                    "reserved": replay.get("reserved"), "meta": {"gen": "replay"}}]
    else:
        for name, ent, reserved, src in CORPUS:
            designs.append({"name": name, "source": src, "entity": ent, "reserved": reserved, "meta": {"gen": "corpus"}})
        n_naming = int(os.environ.get("C06_NAMING", 110 if quick else 600))
        for i in range(n_naming):
            designs.append(naming_design(rng, i))
        stmts = expr_statements(rng, ck.tier)
        if quick:
            pick = rng.sample(stmts, int(os.environ.get("C06_EXPR", 260)))
            # one of every unary / cast family is always in
            must = [s for s in stmts if s["tag"] in ("neg_U3", "neg_S3", "abs_S3", "enum_match", "enum_cmp", "array_rw",
                                                     "bool_var", "neg_seq_U3", "toint_U3", "selectwith_B2", "match_B2",
                                                     "seqall_U3", "seqall_B3", "seqall_idx_U3", "seqall_sig_U3", "readout_U3",
                                                     "seqall_ifexpr_U3", "seqall_ifexpr_B3", "seqall_select_U3", "seqall_ifexpr_Bit",
                                                     "seqall_ifexpr_sig_U3",
                                                     "readout_conc_B3", "widen_U3_U8", "widen_seq_S3_S8")]
            pick = must + [s for s in pick if s not in must]
        else:
            pick = list(stmts)
            rng.shuffle(pick)
        per = 4 if quick else 3
        for i in range(0, len(pick), per):
            designs.append(expr_design(i // per, pick[i:i + per]))
    ups = None
    if replay is None and (not quick or os.environ.get("C06_UPSTREAM")):
        ups = "all"
    payload = {"dir": os.path.join(ck.gen, "src"), "jobs": common.NCPU, "designs": designs}
    if ups:
        payload["upstream"] = ups
    results = common.run_worker("c06_worker.py", payload, timeout=6000)["results"]
    for r in results[len(designs):]:
        designs.append({"name": r["name"], "upstream": r.get("upstream"), "entity": None, "meta": {"gen": "upstream"}})

    # thorough: statements of a rejected pack are compiled again one by one
    if not quick and replay is None:
        singles = []
        for d, r in zip(list(designs), list(results)):
            if d["meta"].get("gen") == "expr" and not r["ok"] and len(d["meta"]["tags"]) > 1:
                by = {s["tag"]: s for s in stmts}
                for t in d["meta"]["tags"]:
                    singles.append(expr_design(10000 + len(singles), [by[t]]))
        if singles:
            r2 = common.run_worker("c06_worker.py", {"dir": os.path.join(ck.gen, "src"), "jobs": common.NCPU,
                                                     "designs": singles}, timeout=6000)["results"]
            designs += singles
            results += r2

    phase("compile")
    compiled = []
    cases = []
    for d, r in zip(designs, results):
        g = d["meta"]["gen"]
        ck.hist("designs", g)
        if not r["ok"]:
            ck.hist("rejected", g)
            if g == "expr":
                for t in d["meta"]["tags"]:
                    ck.hist("rejected_expr_family", t.split("_")[0])
            if g == "upstream":
                ck.hist("upstream_not_compiled", r.get("error_type"))
            else:
                ck.hist("reject_kinds", "%s: %s" % (r.get("error_type"), re.sub(r"\d+", "N", r.get("error", ""))[:70]))
            continue
        ck.hist("accepted", g)
        compiled.append((d, r))
        ck.evaluations += 1
        try:
            cs, lib = build_cases(d["name"], r["vhdl"], d.get("reserved"))
        except R.Unparsed as e:
            if g == "upstream":
                # reader subset limits on designs ghdl accepts upstream: counted, cannot be judged
                ck.hist("upstream_outside_reader_subset", unparsed_key(e)["class"])
                continue
            ck.obligation(False)
            rep.report(unparsed_key(e), "emitted VHDL left the legal subset: " + str(e),
                       design_replay(d, r, {"rule": "parses", "offending_line": e.line, "message": e.msg}))
            continue
        ck.obligation(True)         # parses
        for c in cs:
            c.design = d
            c.result = r
        cases += cs
        if g == "expr":
            for t in d["meta"]["tags"]:
                ck.nontrivial("expr:" + t)
                ck.hist("expr_family", t.split("_")[0])
        elif g == "naming":
            for kind, slot, nm in d["meta"]["special"]:
                ck.nontrivial("naming:%s:%s:%s" % (kind, slot, nm))
                ck.hist("naming_kind", kind)
                ck.hist("naming_slot", slot)
        elif g == "upstream":
            ck.nontrivial("upstream:" + d["upstream"])
        if len(ck.samples) < 4 and g in ("naming", "expr"):
            ck.sample({"design": d["name"], "meta": d["meta"], "entities": lib, "vhdl_lines": r["vhdl"].count("\n")})

    phase("read")
    verdicts = eval_cases(ck, "ent", cases)
    phase("rules_in_coq")
    ck.cov["entities_checked"] = len(cases)
    for c, v in zip(cases, verdicts):
        if v is not None and v[0] == "coq-error" and "Stack overflow" in v[1]:
            v = eval_one_big(ck, "ent_%s" % c.dname[:40], c)
        if v is None or v[0] == "coq-error":
            ck.obligation(False)
            rep.report({"rule": "term", "class": "case term rejected by Coq"}, "the printed entity is not a well-formed term",
                       design_replay(c.design, c.result, {"entity_checked": c.ent.name, "log": v[1] if v else None}))
            continue
        failing, bad_conc = v
        for i, rule in enumerate(RULES):
            ok = i not in failing
            ck.obligation(ok)
            if not ok:
                key, what, det = classify(c, rule, bad_conc)
                ck.hist("failing_rules", rule)
                rep.report(key, "%s: %s (entity %s)" % (rule, what, c.ent.name),
                           design_replay(c.design, c.result, dict(det, rule=rule, entity_checked=c.ent.name,
                                                                  ill_typed_conc=bad_conc[:10])))
    phase("classify")
    uniquify_phase(ck, rep, compiled, live)
    phase("uniquify")
    ck.cov["violation_hits_by_key"] = rep.seen
    ck.cov["rule"] = ("a case = one entity of one compiled design; distinct_nontrivial counts distinct (naming kind, slot, "
                      "name) triples, distinct expression templates, distinct upstream designs and distinct renaming scopes")
    ck.cov["rules"] = RULES + ["parses", "lib_unique", "uniquify model = code", "tables"]
    ck.trusted += ["vhdl_reader.py (fail-closed parser of the emitted subset) and c06.scan_text (declared identifiers with "
                   "their scope lines, predefined identifiers used in predefined role; cross-checked against the reader)",
                   "Vhdl/TablesRef.v: the VHDL-93 reserved words and the predefined names the emitter prints (checked in)",
                   "c06_worker.raw_request: replica of the override / hint / fallback choice of complete_setup l.698-746 "
                   "(inputs of the uniquify model)"]
    ck.assumptions += ["legality is judged on the reader's subset of VHDL-93 (the subset all upstream reference designs stay in, "
                       "except inout ports, array aggregates in assignments and concurrent assertions, which are counted as "
                       "outside the subset for upstream designs only)",
                       "no_hiding judges reliance textually: call / conversion / type-mark positions inside the scope of the "
                       "hiding declaration",
                       "typing soundness is proved up to one activation of a concurrent statement (run_conc); the lift "
                       "to delta cycles is not proved"]
