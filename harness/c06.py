"""C06 - every accepted design yields legal, well-typed, self-consistent VHDL.

real compiler (c06_worker.py, one forked child per design) -> emitted text -> fail-closed reader
(vhdl_reader.parse_library; an Unparsed = the text left the legal subset) -> per entity a Coq term
(design of the entity's own statements, declared names per region, port associations of its
instances) -> the legality rules of Vhdl/Typing.v and Vhdl/Names.v are EVALUATED INSIDE COQ
(vm_compute): wt_design, assoc_ok, case_ok, ports_ok, sens_ok, idents_ok, decl_unique,
no_reserved (against the checked-in VHDL-93 table), no_hiding, lib_unique.  The recorded inputs
and outputs of every VhdlScope.complete_setup are compared with the Gallina model
Names.uniquify (model = code), and the live reserved-word / operator tables are regenerated
(tables.py) and checked against Vhdl/TablesRef.v.

design sources: regression corpus, NAMING generator, EXPRESSION generator, and (thorough tier)
all upstream reference designs = the false-alarm guard of the rules."""
from __future__ import annotations
import json
import os
import re

import common
import vhdl_reader as R

RULES = ["wt_design", "assoc_ok", "case_ok", "ports_ok", "sens_ok", "idents_ok", "decl_unique", "no_reserved",
         "no_hiding"]

PREDEF_TYPES = ["std_logic", "std_logic_vector", "unsigned", "signed", "boolean", "integer", "natural"]
PREDEF_FUNCS = ["to_integer", "to_unsigned", "to_signed", "resize", "shift_left", "shift_right", "rising_edge",
                "falling_edge", "std_logic_vector", "unsigned", "signed", "cohdl_bool_to_std_logic"]
PREDEF_LITS = ["true", "false"]
PREDEF_LIBS = ["work"]
PREDEF = set(PREDEF_TYPES + PREDEF_FUNCS + PREDEF_LITS + PREDEF_LIBS)

PREAMBLE = (common.COQ_HEADER +
            "From Coq Require Import String.\n"
            "From Cohdl Require Import Vhdl.Typing Vhdl.Names Vhdl.TablesRef.\n"
            "Local Open Scope string_scope.\n"
            "Record ecase := { ec_d : design; ec_names : ent_names; ec_assoc : list assoc }.\n"
            "Definition rules (c : ecase) : list bool :=\n"
            "  [ wt_design c.(ec_d); forallb (assoc_ok (mk_tenv c.(ec_d))) c.(ec_assoc); case_ok c.(ec_d);\n"
            "    ports_ok c.(ec_d); sens_ok c.(ec_d); idents_ok c.(ec_names); decl_unique c.(ec_names);\n"
            "    no_reserved vhdl93_reserved c.(ec_names); no_hiding predefined_used_by_emitter c.(ec_names) ].\n"
            "Fixpoint failing (l : list bool) (i : N) : list N :=\n"
            "  match l with [] => [] | b :: r => if b then failing r (i + 1)%N else i :: failing r (i + 1)%N end.\n"
            "Definition verdict (c : ecase) : list N * list N := (failing (rules c) 0%N, ill_typed_conc c.(ec_d)).\n")


# ----------------------------------------------------------------------------------------------------------
# emitted text -> per-entity cases
# ----------------------------------------------------------------------------------------------------------

def split_entities(text):
    """text of each design unit pair (entity + architecture), keyed by lower-cased entity name"""
    out = {}
    cur = None
    buf = []
    for line in text.split("\n"):
        m = re.match(r"\s*entity\s+(\w+)\s+is\s*$", line, re.I)
        if m:
            if cur is not None:
                out.setdefault(cur, "\n".join(buf))
            cur = m.group(1).lower()
            buf = []
        buf.append(line)
    if cur is not None:
        out.setdefault(cur, "\n".join(buf))
    return out


_CALL_RE = re.compile(r"\b([A-Za-z]\w*)\s*('?)\(")
_STATIC_ARG = re.compile(r"\s*\d+\s*(?:(?:downto|to)\s+\d+\s*)?\)", re.I)


def scan_text(ent: R.Entity, text):
    """-> (scoped, relied): every declared identifier with the lines (from, to] in which it is visible, and the
    predefined identifiers the text uses in their predefined role with the line of each use (trusted
    tokenisation; cross-checked against the reader's list of declared names, fail-closed).
    predefined role = type mark, call / conversion / qualified-expression position, boolean literal, library
    name of a direct instantiation.  `p(static index or range)` with p declared as a vector / array object is a
    reference to that object, not a call."""
    lines = text.split("\n")
    n = len(lines)
    vec_objs = set()
    for d in list(ent.ports) + list(ent.signals):
        if d.ty.kind in ("vec", "arr"):
            vec_objs.add(d.name.lower())
    for c in ent.conc:
        if isinstance(c, R.Process):
            for v in c.vars:
                if v.ty.kind in ("vec", "arr"):
                    vec_objs.add(v.name.lower())
    scoped = []
    relied = []
    proc_open = []      # indices into scoped of the variables of the process being read
    for i, raw in enumerate(lines, 1):
        line = raw.strip()
        if not line or line.startswith("--"):
            continue
        low = line.lower()
        if low.startswith(("library ", "use ")):
            continue
        body = low
        tm = []
        m = re.match(r"entity\s+(\w+)\s+is$", low)
        if m:
            scoped.append([line.split()[1], i, n])
            body = ""
        m = re.match(r"architecture\s+(\w+)\s+of\s+\w+\s+is$", low)
        if m:
            scoped.append([line.split()[1], i, n])
            body = ""
        m = re.match(r"(signal|variable|constant)\s+(\w+)\s*:\s*(\w+)[^:]*(:=.*)?$", low)
        if m:
            name = re.match(r"\w+\s+(\w+)", line).group(1)
            scoped.append([name, i, n])
            if m.group(1) == "variable":
                proc_open.append(len(scoped) - 1)
            tm.append(m.group(3))
            body = m.group(4) or ""
        m = re.match(r"(\w+)\s*:\s*(?:in|out|inout)\s+(\w+)", low)
        if m:
            scoped.append([re.match(r"(\w+)", line).group(1), i, n])
            tm.append(m.group(2))
            body = ""
        m = re.match(r"type\s+(\w+)\s+is\s+array\s*\(.*\)\s+of\s+(\w+)", low)
        if m:
            scoped.append([line.split()[1], i, n])
            tm.append(m.group(2))
            body = ""
        else:
            m = re.match(r"type\s+(\w+)\s+is\s*\((.*)\)\s*;", line, re.I)
            if m:
                scoped.append([m.group(1), i, n])
                for lit in m.group(2).split(","):
                    scoped.append([lit.strip(), i, n])
                body = ""
        m = re.match(r"function\s+(\w+)\s*\(\s*\w+\s*:\s*(\w+)\s*\)\s*return\s+(\w+)", low)
        if m:
            tm += [m.group(2), m.group(3)]
            body = ""
        if low.startswith("end "):
            body = ""
            if low == "end process;":
                for k in proc_open:
                    scoped[k][2] = i
                proc_open = []
        m = re.match(r"(\w+)\s*:\s*process\b", low)
        if m:
            scoped.append([re.match(r"(\w+)", line).group(1), i, n])
            body = low[m.end():]
        m = re.match(r"(\w+)\s*:\s*entity\s+(\w+)\.", low)
        if m:
            scoped.append([re.match(r"(\w+)", line).group(1), i, n])
            tm.append(m.group(2))
            body = ""
        for t in tm:
            if t in PREDEF:
                relied.append((t, i))
        for mm in _CALL_RE.finditer(body):
            ident, tick = mm.group(1), mm.group(2)
            if ident not in PREDEF:
                continue
            if not tick and ident in vec_objs and _STATIC_ARG.match(body, mm.end()):
                continue
            relied.append((ident, i))
        for lit in PREDEF_LITS:
            if re.search(r"(?<![\w'])%s(?![\w(])" % lit, body):
                relied.append((lit, i))
    # fail-closed cross-check with the reader's view of the declared names
    mine = sorted(x[0].lower() for x in scoped)
    theirs = sorted(nm.lower() for _r, kind, nm in ent.names if kind != "function")
    if mine != theirs:
        raise R.Unparsed("declared-name scan disagrees with the reader: %s" % sorted(set(mine) ^ set(theirs))[:6])
    return [(a, b, c) for a, b, c in scoped], sorted(set(relied))


def stmt_names(ss, acc):
    for s in ss:
        k = s[0]
        if k in ("sig", "var"):
            acc.add(s[1][0].lower())
            for sel in s[1][1]:
                if sel[0] == "idx":
                    acc.update(x.lower() for x in R._names_in(sel[1]))
            acc.update(x.lower() for x in R._names_in(s[2]))
        elif k == "if":
            acc.update(x.lower() for x in R._names_in(s[1]))
            stmt_names(s[2], acc)
            stmt_names(s[3], acc)
        elif k == "case":
            acc.update(x.lower() for x in R._names_in(s[1]))
            for _chs, b in s[2]:
                stmt_names(b, acc)
            if s[3] is not None:
                stmt_names(s[3], acc)
        elif k == "assert":
            acc.update(x.lower() for x in R._names_in(s[1]))
    return acc


def coq_str(s):
    return '"' + s.replace('"', '""') + '"'


def coq_strs(xs):
    return "[" + "; ".join(coq_str(x) for x in xs) + "]"


def names_term(ent: R.Entity, text):
    fixed = [n for region, kind, n in ent.names if kind == "function"]
    arch = [n for region, kind, n in ent.names
            if region in ("entity", "arch") and kind not in ("architecture", "function", "enumlit")]
    lits = [list(l) for _tn, _ty, l in ent.type_decls if l is not None]
    procs = []
    for c in ent.conc:
        if isinstance(c, R.Process):
            uses = set(x.lower() for x in c.sens)
            stmt_names(c.body, uses)
            procs.append(([v.name for v in c.vars], sorted(uses)))
    scoped, relied = scan_text(ent, text)
    term = ("{| en_entity := %s; en_archname := %s; en_fixed := %s; en_arch := %s; en_lits := [%s]; "
            "en_procs := [%s]; en_scoped := [%s]; en_relied := [%s] |}" % (
                coq_str(ent.name), coq_str(ent.arch), coq_strs(fixed), coq_strs(arch),
                "; ".join(coq_strs(l) for l in lits),
                "; ".join("(%s, %s)" % (coq_strs(v), coq_strs(u)) for v, u in procs),
                "; ".join("(%s, (%d%%N, %d%%N))" % (coq_str(a), b, c) for a, b, c in scoped),
                "; ".join("(%s, %d%%N)" % (coq_str(a), b) for a, b in relied)))
    return term, {"fixed": fixed, "arch": arch, "lits": lits, "procs": procs, "scoped": scoped, "relied": relied}


def entity_design(ent: R.Entity):
    """the entity's own statements as a Design (instances left out; their port associations are checked
    by assoc_ok); constants are substituted by their values"""
    d = R.Design(ent.name, [], [], [], {}, [], [], None)
    ren = {}
    sub = {}
    for p in ent.ports:
        ren[p.name.lower()] = p.name
        d.sigs.append(R.Decl(p.name, p.ty, p.init, p.hasdef, p.dir))
    seen = set(ren)
    for s in ent.signals:
        if s.name.lower() in seen:
            continue        # duplicate declaration: reported by decl_unique; first declaration wins
        seen.add(s.name.lower())
        ren[s.name.lower()] = s.name
        d.sigs.append(R.Decl(s.name, s.ty, s.init, s.hasdef, "local"))
    for name, (kind, dec) in ent.scope.objects.items():
        if kind == "const":
            sub[name] = ("lit", dec.init)
    stmts = []
    insts = []
    for c in ent.conc:
        if isinstance(c, R.Process):
            pren = dict(ren)
            psub = dict(sub)
            for v in c.vars:
                flat = c.label + "." + v.name
                if flat.lower() in {x.name.lower() for x in d.vars}:
                    continue
                pren[v.name.lower()] = flat
                psub.pop(v.name.lower(), None)
                d.vars.append(R.Decl(flat, v.ty, v.init, v.hasdef, "local", c.label))
            sens = [ren.get(s.lower(), s) for s in c.sens]
            d.conc.append(("proc", c.label, sens, R._subst_stmts(c.body, pren, psub)))
            stmts.append(("proc", c))
        elif isinstance(c, R.Instance):
            insts.append(c)
        elif c[0] == "assign":
            d.conc.append(("assign", R._subst_target(c[1], ren, sub), R._subst_expr(c[2], ren, sub)))
            stmts.append(c)
        elif c[0] == "select":
            d.conc.append(("select", R._subst_target(c[1], ren, sub), R._subst_expr(c[2], ren, sub),
                           [(chs, R._subst_expr(v, ren, sub)) for chs, v in c[3]],
                           None if c[4] is None else R._subst_expr(c[4], ren, sub)))
            stmts.append(c)
    for p in ent.ports:
        (d.inputs if p.dir == "in" else d.outputs).append(p.name)
    return d, ren, sub, stmts, insts


def assoc_terms(ent, insts, by_name, printer: R.CoqPrinter, ren, sub):
    """port associations of the entity's instances as Coq terms of type assoc"""
    terms = []
    info = []
    for inst in insts:
        child = by_name.get(inst.entity.lower())
        if child is None:
            raise R.Unparsed("instance of unknown entity %s" % inst.entity)
        if inst.arch is not None and inst.arch.lower() != child.arch.lower():
            raise R.Unparsed("instance names architecture %s, entity %s has %s" % (inst.arch, child.name, child.arch))
        formals = {p.name.lower(): p for p in child.ports}
        seen = set()
        for formal, actual, conv in inst.portmap:
            f = formal.lower()
            if f not in formals:
                raise R.Unparsed("port map of %s names unknown formal %s" % (inst.label, formal))
            if f in seen:
                raise R.Unparsed("formal %s associated twice" % formal)
            seen.add(f)
            p = formals[f]
            if conv is not None and p.dir != "out":
                raise R.Unparsed("formal-side conversion on an input port")
            a = R._subst_expr(actual, ren, sub)
            convt = "None" if conv is None else "(Some %s)" % R.VK[R.VEC_TYPES[conv]]
            terms.append("{| as_formal := %s; as_dir := %s; as_conv := %s; as_actual := %s |}" % (
                printer.ty(p.ty), "DOut" if p.dir == "out" else "DIn", convt, printer.expr(a)))
            info.append((inst.label, formal))
        missing = set(formals) - seen
        if missing:
            raise R.Unparsed("instance %s leaves formals unassociated: %s" % (inst.label, sorted(missing)))
    return terms, info


class ECase:
    """one entity of one compiled design"""
    def __init__(self, dname, ent, term, meta):
        self.dname = dname
        self.ent = ent
        self.term = term
        self.meta = meta


def build_cases(dname, vhdl):
    """-> (list of ECase, lib_names) ; raises R.Unparsed"""
    ents = R.parse_library(vhdl)
    texts = split_entities(vhdl)
    by_name = {}
    for e in ents:
        by_name.setdefault(e.name.lower(), e)
    cases = []
    for e in ents:
        d, ren, sub, stmts, insts = entity_design(e)
        pr = R.CoqPrinter(d)
        dterm = pr.design()
        aterms, ainfo = assoc_terms(e, insts, by_name, pr, ren, sub)
        nterm, ninfo = names_term(e, texts.get(e.name.lower(), ""))
        term = "{| ec_d := %s;\n ec_names := %s;\n ec_assoc := [%s] |}" % (dterm, nterm, "; ".join(aterms))
        cases.append(ECase(dname, e, term, {"names": ninfo, "stmts": stmts, "assoc": ainfo, "design": d}))
    return cases, [e.name for e in ents]


# ----------------------------------------------------------------------------------------------------------
# pretty printer (diagnosis only: reconstructs the offending statement for the replay)
# ----------------------------------------------------------------------------------------------------------

_OPS = {v: k for k, v in R.BINOPS.items()}
_F1 = {"FToInteger": "to_integer", "FBoolToSl": "cohdl_bool_to_std_logic", "FConvUns": "unsigned",
       "FConvSgn": "signed", "FConvSlv": "std_logic_vector", "FQualUns": "unsigned'", "FQualSgn": "signed'",
       "FQualSlv": "std_logic_vector'"}
_F2 = {"FResize": "resize", "FShl": "shift_left", "FShr": "shift_right", "FToUnsigned": "to_unsigned",
       "FToSigned": "to_signed"}


def pp_value(v):
    k = v[0]
    if k == "L":
        return "'1'" if v[1] else "'0'"
    if k == "B":
        return "true" if v[1] else "false"
    if k == "I":
        return str(v[1])
    if k == "V":
        bits = format(v[3], "b").zfill(v[2]) if v[2] else ""
        return {"slv": '"%s"', "uns": "unsigned'(\"%s\")", "sgn": "signed'(\"%s\")"}[v[1]] % bits
    if k == "E":
        return str(v[3]) if len(v) > 3 and v[3] else "enum#%d" % v[2]
    return "(" + ", ".join(pp_value(x) for x in v[1]) + ")"


def pp_expr(e):
    k = e[0]
    if k == "lit":
        return pp_value(e[1])
    if k == "name":
        return e[1]
    if k == "idx":
        return "%s(%s)" % (pp_expr(e[1]), pp_expr(e[2]))
    if k == "slice":
        return "%s(%d downto %d)" % (pp_expr(e[1]), e[2], e[3])
    if k == "un":
        return {"UNot": "not ", "UNeg": "-", "UAbs": "abs "}[e[1]] + "(" + pp_expr(e[2]) + ")"
    if k == "bin":
        return "(%s) %s (%s)" % (pp_expr(e[2]), _OPS[e[1]], pp_expr(e[3]))
    if k == "f1":
        return "%s(%s)" % (_F1[e[1]], pp_expr(e[2]))
    if k == "f2":
        return "%s(%s, %s)" % (_F2[e[1]], pp_expr(e[2]), pp_expr(e[3]))
    if k == "edge":
        return ("rising_edge(%s)" if e[1] else "falling_edge(%s)") % e[2]
    return repr(e)


def pp_target(t):
    s = t[0]
    for sel in t[1]:
        s += "(%s)" % pp_expr(sel[1]) if sel[0] == "idx" else "(%d downto %d)" % (sel[1], sel[2])
    return s


def pp_stmts(ss, ind=0):
    out = []
    pad = "  " * ind
    for s in ss:
        k = s[0]
        if k == "null":
            out.append(pad + "null;")
        elif k == "sig":
            out.append(pad + "%s <= %s;" % (pp_target(s[1]), pp_expr(s[2])))
        elif k == "var":
            out.append(pad + "%s := %s;" % (pp_target(s[1]), pp_expr(s[2])))
        elif k == "if":
            out.append(pad + "if %s then" % pp_expr(s[1]))
            out += pp_stmts(s[2], ind + 1)
            if s[3]:
                out.append(pad + "else")
                out += pp_stmts(s[3], ind + 1)
            out.append(pad + "end if;")
        elif k == "case":
            out.append(pad + "case %s is" % pp_expr(s[1]))
            for chs, b in s[2]:
                out.append(pad + "  when %s =>" % " | ".join(pp_value(c) for c in chs))
                out += pp_stmts(b, ind + 2)
            if s[3] is not None:
                out.append(pad + "  when others =>")
                out += pp_stmts(s[3], ind + 2)
            out.append(pad + "end case;")
        elif k == "assert":
            out.append(pad + "assert %s;" % pp_expr(s[1]))
    return out


def pp_conc(c):
    if isinstance(c, tuple) and c[0] == "proc":
        p = c[1]
        return ["%s: process(%s)" % (p.label, ", ".join(p.sens))] + \
               ["  variable %s : %s;" % (v.name, v.ty.kind + (v.ty.vk + str(v.ty.w) if v.ty.kind == "vec" else ""))
                for v in p.vars] + ["begin"] + pp_stmts(p.body, 1) + ["end process;"]
    if c[0] == "assign":
        return ["%s <= %s;" % (pp_target(c[1]), pp_expr(c[2]))]
    if c[0] == "select":
        lines = ["with %s select %s <=" % (pp_expr(c[2]), pp_target(c[1]))]
        for chs, v in c[3]:
            lines.append("  %s when %s," % (pp_expr(v), " | ".join(pp_value(x) for x in chs)))
        if c[4] is not None:
            lines.append("  %s when others;" % pp_expr(c[4]))
        return lines
    return [repr(c)]


# ----------------------------------------------------------------------------------------------------------
# evaluation in Coq
# ----------------------------------------------------------------------------------------------------------

def parse_verdicts(s):
    """'[([1; 2], [0]); ([], [])]' -> [([1,2],[0]), ([],[])]"""
    s = re.sub(r"%[A-Za-z]+", "", s).strip()
    res = []
    for m in re.finditer(r"\(\s*(\[[^\]]*\]|nil)\s*,\s*(\[[^\]]*\]|nil)\s*\)", s):
        res.append((common.parse_N_list(m.group(1)), common.parse_N_list(m.group(2))))
    return res


def eval_cases(ck, tag, cases, shard=24, timeout=1500):
    """-> list of (failing rule indices, ill-typed conc indices) per case; None where the term did not typecheck"""
    files = []
    for si in range(0, len(cases), shard):
        part = cases[si:si + shard]
        path = os.path.join(ck.gen, "%s_%04d.v" % (tag, si // shard))
        with open(path, "w") as f:
            f.write(PREAMBLE)
            for j, c in enumerate(part):
                f.write("Definition c%d : ecase := %s.\n" % (j, c.term))
            f.write("Eval vm_compute in (map verdict [%s]).\n" % "; ".join("c%d" % j for j in range(len(part))))
        files.append((si, path, len(part)))
    outs = common.coqc_many([p for _, p, _ in files], timeout=timeout)
    res = [None] * len(cases)
    for (si, path, n), (rc, out, err) in zip(files, outs):
        if rc != 0:
            if n == 1:
                res[si] = ("coq-error", (out + err)[-1500:])
                continue
            # isolate the offending case(s)
            sub = eval_cases(ck, tag + "_r%d" % si, cases[si:si + n], shard=max(1, n // 4), timeout=timeout)
            res[si:si + n] = sub
            continue
        vs = parse_verdicts(common.coq_outputs(out)[-1])
        if len(vs) != n:
            raise RuntimeError("cannot parse verdicts of %s: %s" % (path, out[-500:]))
        res[si:si + n] = vs
        common._cleanup_v(path)
    return res
