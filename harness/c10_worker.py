"""C10 worker - runs CPython itself and the REAL cohdl code ($COHDL_SRC on PYTHONPATH).

stdin: one JSON object, stdout: last line one JSON object.

mode "bind":  {"mode":"bind","dir":scratch,"module":source,"cases":[{"fn":"f_3","obj":null|"o_3",
                "params":[ids in co_varnames order],"calls":[{"src":"(1, *[2], **{'p1': 3})","pos":[..],"kws":[[id,v],..]}]}]}
   the module defines every f_i (returning the dict of its parameters) and objects o_i whose
   method `m` is the function (bound-method / self-argument cases).
   per call:
     cpy   : the actual CPython call  eval("<callee><src>")               -> binding | error
     sigb  : inspect.signature(callee).bind(*pos, **dict(kws)) (only without duplicate keywords)
     real  : FunctionDefinition.from_callable(callee).bind_args(pos, kwargs) with kwargs built the way
             the ast.Call handler of _prepare_ast.py builds it (item assignment in order)
             -> scope values of the parameters + super_arg | error
mode "pyref": {"mode":"pyref","dir":scratch,"programs":[{"name":..,"source":..}]}
   executes every program module in a forked child and calls its reference() under plain CPython
   -> list of ints | error
"""
import importlib.util
import inspect
import json
import os
import sys
import traceback

SELF = 999


def canon_val(v):
    if isinstance(v, bool):
        return ["x", "bool"]
    if isinstance(v, int):
        return ["v", v]
    if isinstance(v, tuple):
        return ["t", [canon_scalar(x) for x in v]]
    if isinstance(v, dict):
        return ["d", [[str(k), canon_scalar(x)] for k, x in v.items()]]
    if getattr(v, "_c10_self", False):
        return ["v", SELF]
    return ["x", type(v).__name__]


def canon_scalar(x):
    if getattr(x, "_c10_self", False):
        return SELF
    if isinstance(x, int) and not isinstance(x, bool):
        return x
    return "?" + type(x).__name__


def canon_binding(params, d):
    return [[p, canon_val(d[p])] for p in params]


def load_module(dirpath, name, source):
    os.makedirs(dirpath, exist_ok=True)
    path = os.path.join(dirpath, name + ".py")
    with open(path, "w") as f:
        f.write(source)
    spec = importlib.util.spec_from_file_location(name, path)
    mod = importlib.util.module_from_spec(spec)
    sys.modules[name] = mod
    spec.loader.exec_module(mod)
    return mod


def mode_bind(req):
    from cohdl._core._collect_ast_and_scope import FunctionDefinition, _Unbound
    mod = load_module(req["dir"], "c10_bindmod", req["module"])
    out = []
    for case in req["cases"]:
        params = case["params"]
        if case.get("obj"):
            callee_src = case["obj"] + ".m"
            callee = getattr(getattr(mod, case["obj"]), "m")
        else:
            callee_src = case["fn"]
            callee = getattr(mod, case["fn"])
        try:
            fdef = FunctionDefinition.from_callable(callee)
            fdef_err = None
        except BaseException as e:  # noqa
            fdef, fdef_err = None, type(e).__name__ + ": " + str(e)[:200]
        is_m = inspect.ismethod(callee)
        sig = inspect.signature(callee.__func__ if is_m else callee)
        res_calls = []
        for call in case["calls"]:
            r = {}
            # 1. CPython, the real call
            try:
                d = eval(callee_src + call["src"], mod.__dict__)
                r["cpy"] = canon_binding(params, d)
            except TypeError as e:
                r["cpy"] = None
                r["cpy_err"] = str(e)[:120]
            # 2. inspect.signature(...).bind
            keys = [k for k, _ in call["kws"]]
            if len(set(keys)) == len(keys):
                try:
                    ba = sig.bind(*(([callee.__self__] if is_m else []) + list(call["pos"])), **{k: v for k, v in call["kws"]})
                    ba.apply_defaults()
                    dd = dict(ba.arguments)
                    r["sigb"] = canon_binding([p for p in params if p in dd], dd)
                    r["sigb_n"] = len(dd)
                except TypeError as e:
                    r["sigb"] = None
            else:
                r["sigb"] = "dup"
            # 3. the real FunctionDefinition.bind_args
            if fdef is None:
                r["real"] = None
                r["real_err"] = "from_callable: " + fdef_err
            else:
                kwargs = {}
                for k, v in call["kws"]:
                    kwargs[k] = v                      # as `kwarg_expr[name] = ...` in the ast.Call handler
                try:
                    inst = fdef.bind_args(list(call["pos"]), kwargs)
                    scope = inst.scope()
                    r["real"] = canon_binding(params, scope)
                    sa = inst.super_arg()
                    r["real_super"] = None if sa is _Unbound else canon_val(sa)
                except BaseException as e:  # noqa
                    r["real"] = None
                    r["real_err"] = type(e).__name__ + ": " + str(e)[:120]
            res_calls.append(r)
        out.append(res_calls)
    return {"results": out}


def pyref_one(dirpath, prog):
    try:
        mod = load_module(dirpath, prog["name"] + "_ref", prog["source"])
        vals = mod.reference()
        return {"name": prog["name"], "ok": True, "values": vals}
    except BaseException as e:  # noqa
        return {"name": prog["name"], "ok": False, "error_type": type(e).__name__, "error": str(e)[:300],
                "trace": traceback.format_exc()[-800:]}


def mode_pyref(req):
    dirpath = req["dir"]
    os.makedirs(dirpath, exist_ok=True)
    try:
        import cohdl  # noqa: F401  (program modules import it for the entity half)
        from cohdl import std  # noqa: F401
    except Exception:
        pass
    progs = req["programs"]
    jobs = int(req.get("jobs", 8))
    results = [None] * len(progs)
    running = {}
    idx = 0
    devnull = os.open(os.devnull, os.O_WRONLY)
    while idx < len(progs) or running:
        while idx < len(progs) and len(running) < jobs:
            p = progs[idx]
            outp = os.path.join(dirpath, p["name"] + ".ref.json")
            pid = os.fork()
            if pid == 0:
                try:
                    os.dup2(devnull, 1)
                    os.dup2(devnull, 2)
                    sys.setrecursionlimit(2000)
                    r = pyref_one(dirpath, p)
                except BaseException as e:  # noqa
                    r = {"name": p["name"], "ok": False, "error_type": "Crash", "error": repr(e)}
                with open(outp, "w") as f:
                    json.dump(r, f)
                os._exit(0)
            running[pid] = (idx, outp)
            idx += 1
        pid, status = os.wait()
        i, outp = running.pop(pid)
        try:
            results[i] = json.load(open(outp))
            os.unlink(outp)
        except Exception:  # noqa
            results[i] = {"name": progs[i]["name"], "ok": False, "error_type": "Crash", "error": "no result %r" % (status,)}
    return {"results": results}


def main():
    req = json.load(sys.stdin)
    if req["mode"] == "bind":
        res = mode_bind(req)
    elif req["mode"] == "pyref":
        res = mode_pyref(req)
    else:
        raise SystemExit("unknown mode")
    print(json.dumps(res))


if __name__ == "__main__":
    main()
