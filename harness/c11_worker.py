"""C11 worker: runs HISTORIES of compilations with the real compiler, one interpreter image per history.

stdin : {"dir": scratch dir, "pool": {name: {"source": text, "entity": class name}},
         "jobs": [{"id": n, "history": [design names], "text": bool}], "par": n}
stdout: last line JSON {"base": gstate at import, "hashseed": ..., "results": [{"id", "steps": [step]}]}
step  : {"name", "ok", "sha", "len", "names", "stage", "in_sm", "in_call", "etype", "err", "g": gstate, ["vhdl"|"trace"]}

cohdl is imported once; every history runs in its own forked child of that pristine image (= the state of an
interpreter right after `import cohdl; from cohdl import std`), all steps of one history share the child, nothing
is reset between them.  A design's module is executed once per child: a repeated design is the SAME entity class.

gstate (read from the real module / class level variables after every compilation, see snapshot()):
 sm  StatemachineContext._singleton is set          bs  len(_context._block_stack)
 al  _prepare_ast._block_stack is _context._block_stack (alias intact)
 sc  len(_Prefix._prefix_scope) (scl: [prefix, used])   pe  _Prefix._current_entity: 0 None, 1 = bottom of the block
 pt  sorted items of _Prefix._existing_prefix            stack (stale), 2 any other object
 rb/br/co  IrGenerator.returned_blocks/_break_result/_continue_result is NOT the import-time list object
 rbl/brl/col  their lengths                          rs  len(_return_stack._stack)
 pf  _parent_frame set   inl len(_inline_declared_entities)   act _active_converter_instance set
 h1/h2  _entity_instantiation_handler / _on_register_inline_entity_handler set
 cur _current_context set   cd _current_context_data set   fr ir.Statement._current_frame set
 eh  len(StdExceptionHandler._handler_list)          ti  top entity: _cohdl_info.instantiated is set
 tt  top entity: instantiated_template set           kd  len(FunctionDefinition._known_definitions)
 ic  _prepare_ast_out.count                          st  total size of the _SubTypes caches
"""
import contextlib
import gc
import hashlib
import importlib.util
import io
import json
import os
import re
import sys
import traceback


def _mods():
    from cohdl._core._ir import _repr as ir
    from cohdl._core import _context as cx
    from cohdl._core import _collect_ast_and_scope as cas
    from cohdl._compiler.frontend import _prepare_ast as pa, _generate_ir as gi, _prepare_ast_out as pao
    from cohdl.std import _prefix as px, _context as sc, _exception as se
    return ir, cx, cas, pa, gi, pao, px, sc, se


ORIG = {}


def remember_originals():
    ir, cx, cas, pa, gi, pao, px, sc, se = _mods()
    ORIG["rb"] = gi.IrGenerator.returned_blocks
    ORIG["br"] = gi.IrGenerator._break_result
    ORIG["co"] = gi.IrGenerator._continue_result


def subtypes_total():
    n = 0
    import cohdl._core._bit_vector as a, cohdl._core._unsigned as b, cohdl._core._signed as c
    import cohdl._core._array as d, cohdl._core._type_qualifier as e
    for m in (a, b, c, d, e):
        for v in list(vars(m).values()):
            if isinstance(v, type) and isinstance(v.__dict__.get("_SubTypes"), dict):
                n += len(v.__dict__["_SubTypes"])
    return n


def snapshot(ent=None):
    ir, cx, cas, pa, gi, pao, px, sc, se = _mods()
    P = px._Prefix
    G = gi.IrGenerator
    cur = P._current_entity
    if cur is None:
        pe = 0
    elif len(cx._block_stack) and cur is cx._block_stack[0]:
        pe = 1
    else:
        pe = 2
    info = getattr(ent, "_cohdl_info", None)
    return {
        "sm": int(ir.StatemachineContext._singleton is not None),
        "bs": len(cx._block_stack),
        "al": int(pa._block_stack is cx._block_stack),
        "sc": len(P._prefix_scope),
        "scl": [[str(q._prefix), [str(u) for u in q._used_names]] for q in reversed(P._prefix_scope)],
        "pe": pe,
        "pt": sorted([k, v] for k, v in P._existing_prefix.items()),
        "rb": int(G.returned_blocks is not ORIG["rb"]), "rbl": len(G.returned_blocks),
        "br": int(G._break_result is not ORIG["br"]), "brl": len(G._break_result),
        "co": int(G._continue_result is not ORIG["co"]), "col": len(G._continue_result),
        "rs": len(pa._return_stack._stack),
        "pf": int(pa._parent_frame is not None),
        "inl": len(pa._inline_declared_entities),
        "act": int(pa._active_converter_instance is not None),
        "h1": int(cx._entity_instantiation_handler is not None),
        "h2": int(cx._on_register_inline_entity_handler is not None),
        "cur": int(sc._current_context is not None),
        "cd": int(sc._current_context_data is not None),
        "fr": int(ir.Statement._current_frame is not None),
        "eh": len(se.StdExceptionHandler._handler_list),
        "ti": int(info is not None and info.instantiated is not None),
        "tt": int(info is not None and info.instantiated_template is not None),
        "kd": len(cas.FunctionDefinition._known_definitions),
        "ic": pao.count,
        "st": subtypes_total(),
    }


def classify(tb):
    """stage of the compiler in which the exception was raised, from the traceback frames"""
    frames = traceback.extract_tb(tb)
    fn = [(os.path.basename(f.filename), f.name, f.line or "") for f in frames]
    in_sm = any(b == "_generate_ir.py" and "statemachine_end = self.apply" in line for b, n, line in fn)
    in_call = any(b == "_generate_ir.py" and "result = self.apply(inp._code" in line for b, n, line in fn)
    if any(b == "_generate_ir.py" and n in ("convert_sequential", "convert_concurrent") for b, n, line in fn):
        return ("ir_sm" if in_sm else "ir"), in_sm, in_call
    if any(b == "_generate_ir.py" for b, n, line in fn):
        return "analysis", False, False
    if any(b == "_prepare_ast.py" and n in ("convert_sequential", "convert_concurrent") for b, n, line in fn):
        return "prep", False, False
    if any(b == "_context.py" and "info.architecture(" in line for b, n, line in fn):
        return "arch", False, False
    if any(b == "_prepare_ast.py" for b, n, line in fn):
        return "instantiate", False, False
    if any("backend" in f.filename for f in frames) or any(n in ("generate_vhdl", "write") for b, n, line in fn):
        return "backend", False, False
    return "other", False, False


NAME_RE = re.compile(r"^\s*(?:signal|variable|shared variable)\s+(\w+)\s*:", re.M | re.I)


def run_history(dirpath, pool, job):
    from cohdl import std
    mods = {}
    steps = []
    for k, name in enumerate(job["history"]):
        d = pool.get(name)
        ent = None
        buf = io.StringIO()
        step = {"name": name}
        try:
            with contextlib.redirect_stdout(buf):
                if name.startswith("up:"):
                    if name not in mods:
                        import upstream
                        mods[name] = upstream.load_entity(name[3:])[0]
                    ent = mods[name]
                elif name not in mods:
                    path = os.path.join(dirpath, "m_%s.py" % name)
                    if not os.path.exists(path):
                        tmp = path + ".%d" % os.getpid()
                        with open(tmp, "w") as f:
                            f.write(d["source"])
                        os.replace(tmp, path)
                    # revisions of one design file share the module name (not the file)
                    modname = "c11_m_" + d.get("modname", name)
                    spec = importlib.util.spec_from_file_location(modname, path)
                    mod = importlib.util.module_from_spec(spec)
                    sys.modules[modname] = mod
                    spec.loader.exec_module(mod)
                    mods[name] = mod
                if not name.startswith("up:"):
                    ent = getattr(mods[name], d["entity"])
                vhdl = std.VhdlCompiler.to_string(ent)
            step.update(ok=True, sha=hashlib.sha256(vhdl.encode()).hexdigest(), len=len(vhdl),
                        names=NAME_RE.findall(vhdl), stage="", in_sm=False, in_call=False, etype="", err="")
            if job.get("text"):
                step["vhdl"] = vhdl
        except BaseException as e:  # noqa
            stage, in_sm, in_call = classify(e.__traceback__)
            msg = str(e).strip()
            step.update(ok=False, sha="", len=0, names=[], stage=stage, in_sm=in_sm, in_call=in_call,
                        etype=type(e).__name__, err=(msg.split("\n")[0] if msg else "")[:200])
            if job.get("text"):
                step["trace"] = traceback.format_exc()[-2500:]
        step["g"] = snapshot(ent)
        steps.append(step)
    return {"id": job["id"], "steps": steps}


def tree_fingerprint(root):
    """identifies the source tree that was imported (the check refuses to mix results of two trees)"""
    h = hashlib.sha256()
    for dp, dn, fs in sorted(os.walk(root)):
        dn.sort()
        for f in sorted(fs):
            if f.endswith(".py"):
                with open(os.path.join(dp, f), "rb") as fh:
                    h.update(f.encode() + b"\0" + hashlib.sha256(fh.read()).digest())
    return h.hexdigest()


def main():
    req = json.load(sys.stdin)
    dirpath = req["dir"]
    os.makedirs(dirpath, exist_ok=True)
    import cohdl  # noqa: F401
    from cohdl import std  # noqa: F401
    remember_originals()
    base = snapshot(None)
    # the children share this image copy-on-write: keep the collector away from the objects that exist now
    # (a full collection in a child would touch, i.e. copy, every page of the heap)
    gc.collect()
    gc.freeze()
    jobs = req["jobs"]
    par = int(req.get("par", 8))
    pool = req["pool"]
    results = [None] * len(jobs)
    running = {}
    idx = 0
    devnull = os.open(os.devnull, os.O_WRONLY)
    while idx < len(jobs) or running:
        while idx < len(jobs) and len(running) < par:
            job = jobs[idx]
            out = os.path.join(dirpath, "h%d_%d.result.json" % (os.getpid(), idx))
            pid = os.fork()
            if pid == 0:
                try:
                    os.dup2(devnull, 2)
                    r = run_history(dirpath, pool, job)
                except BaseException as e:  # noqa
                    r = {"id": job["id"], "steps": [], "crash": repr(e)[:500]}
                with open(out, "w") as f:
                    json.dump(r, f)
                os._exit(0)
            running[pid] = (idx, out)
            idx += 1
        pid, status = os.wait()
        i, out = running.pop(pid)
        try:
            results[i] = json.load(open(out))
            os.unlink(out)
        except Exception:  # noqa
            results[i] = {"id": jobs[i]["id"], "steps": [], "crash": "child died, status %r" % (status,)}
    print(json.dumps({"base": base, "hashseed": os.environ.get("PYTHONHASHSEED"), "results": results,
                      "tree": tree_fingerprint(os.path.dirname(os.path.abspath(cohdl.__file__)))}))


if __name__ == "__main__":
    main()
