#!/usr/bin/env python3
"""regenerates /verif/seeded/README.md from the per-mutant meta.json files (written by selftest/run_mutant.py)
and the hand-kept history below (result of the FIRST run of the then-current check, what was strengthened)."""
import json, os, glob
HERE = os.path.dirname(os.path.abspath(__file__))
SEEDED = os.path.join(os.path.dirname(HERE), "seeded")
# mutant -> (first result, what was changed in the check afterwards)
FIRST = {
 "mut_C01_1": ("missed", "nested-loop bias in the body generator, corpus of nested while/break/continue shapes"),
 "mut_C03_1": ("missed", "helper-return shapes (for/else, elif-return) in the body generator"),
 "mut_C03_2": ("missed", "element-reference capture (ghost variable) and same-signal for loops"),
 "mut_C03_3": ("missed", "comb/conc contexts initialised by one evaluation; run-time index alphabet"),
 "mut_C04_1": ("missed", "step_cond + reset, ghost objects without default, active-low async reset held at power-up"),
 "mut_C14_3": ("missed", "delayed (two-context) Fifo wrappers under the hand-over monitor"),
 "mut_C15_1": ("missed", "coroutine consumer wrappers, back-to-back and gapped producers, delay pairs incl. (0,2)"),
 "mut_C15_3": ("missed", "same as C15_1 (unguarded / same-context flag wrappers)"),
 "mut_C16_2": ("missed", "run-time ClockDivider / ToggleSignal wrappers (reader learnt concurrent assert)"),
 "mut_C07_1": ("missed", "placement unit I2: one instance driving one object through two output ports"),
 "mut_C07_2": ("missed", "core-API process flavour (no reset_pushed) for push-only writers"),
 "mut_C07_3": ("missed", "contexts inside nested blocks of depth 1-3 (Usage.BBlock)"),
 "mut_C08_2": ("missed", "implicit-index family: computed run-time index of assignment targets"),
 "mut_C09_1": ("missed", "end-to-end pairs with mod/rem/truncdiv/floordiv and Python ints on either side"),
 "mut_C09_3": ("missed", "end-to-end conversion grid (every allowed source/target kind, top bit set)"),
 "mut_C10_3": ("missed", "closures made by CPython before compilation + module globals of the same names"),
 "mut_C11_1": ("missed", "pool designs a_enum / a_named_like_literals"),
 "mut_C11_2": ("missed", "pool design rejected by a KeyError inside a compile-time `with`"),
 "mut_C12_1": ("patch did not apply after a later fix; rebased", "explicit emission-order obligation; templates used at two depths"),
 "mut_C12_2": ("missed", "parent register with a power-up value passed whole to an instance input"),
 "mut_C12_3": ("missed", "instances created inside contexts (top level and inside mid templates)"),
 "mut_C17_1": ("missed", "record values constructed with keyword order reversed / rotated / positional / mixed"),
 "mut_C17_3": ("missed", "templated records whose declaration inherits from another templated declaration"),
 "mut_C06_2": ("missed", "clock-less sequential statements with if-expression / select_with default operands"),
 "mut_C02_1": ("missed", "two/three/four level nested constant slices with non-zero lower bounds"),
 "mut_C02_r6b": ("missed", "C03 corpus: value snapshots of variables (`was = bool(vb); vb @= a; q <<= was`) - a statement-sequence effect, decided by the C03 check"),
 "mut_C05_r6a": ("missed", "C03 corpus: literals assigned to one target in several branches (push / variable) - decided by the C03 check"),
 "mut_C06_r6a": ("missed", "(cross-checked with the C05 check: Signed source through the .signed view of a BitVector object)"),
 "mut_C07_r6b": ("missed", "placement kind `ref`: an element reference with a run-time index that escapes through a pyeval helper and is read by a later context"),
 "mut_C08_r6b": ("missed", "select_with without default whose 2**width entries include a metavalue pattern"),
 "mut_C09_r6b": ("missed", "end-to-end grid: every comparison of an Unsigned with a negative / out-of-range int, both operand orders"),
 "mut_C10_r6a": ("missed", "comprehensions with several trailing if clauses / nested for clauses (list and dict)"),
 "mut_C11_r6a": ("missed", "two revisions of one design file under one module name (same definition sites, different bodies)"),
 "mut_C13_r6a": ("missed", "both spellings of the wrapped bool / int types (builtins at odd positions of a sequence)"),
 "mut_C17_r6a": ("missed", "inherited records whose base classes are serialised before the derived class is first used"),
 "mut_C17_r6b": ("missed", "BitFields that own their storage (Variable[B](bits)) with nested sub-BitFields"),
 "mut_C20_r6b": ("missed", "layout with reg32.Output registers (lsbs / msbs / offset) under partial strobes"),
 "mut_C02_2": ("missed by C02 (no assignment-conversion shapes there); caught by C05 and C09", ""),
}
rows = []
for d in sorted(glob.glob(os.path.join(SEEDED, "mut_*"))):
    try:
        m = json.load(open(os.path.join(d, "meta.json")))
    except Exception:
        continue
    w = m.get("what_i_ran", {})
    name = os.path.basename(d)
    now = ("not confirmed" if not w.get("confirmed") else
           "DETECTED with input" if w.get("detected_with_input") else
           "DETECTED (no-failing-input-found)" if w.get("detected") else "MISSED")
    also = m.get("also_detected_by", "")
    for xp, xr in (m.get("cross_check") or {}).items():
        if xr.get("detected"):
            also = (also + " " if also else "") + "(%s quick check DETECTS it%s)" % (xp, " with input" if xr.get("detected_with_input") else "")
    first, ch = FIRST.get(name, ("", ""))
    if also and now == "MISSED":
        now = "DETECTED by another property's check; this property's own check: missed."
    rows.append((name, m.get("property", m.get("breaks_property", "?")), (m.get("summary") or "").replace("|", "/").replace("\n", " ")[:230],
                 first or ("detected" if w.get("detected") else "-"), now + (" " + also if also else ""), ch, w.get("repo_head", ""), w.get("check_wall_s", "")))
out = ["# Seeded changes (mutation self-test)", "",
       "Each directory holds `patch.diff` (relative to the /repo head named in meta.json), `demo.py` (exits 0 on the original tree, non-zero on the changed one) and `meta.json` "
       "(property, what the change needs to manifest, and what `selftest/run_mutant.py` ran: patch applies, 66 tests still pass, demo fails on the changed tree, "
       "the registered quick check against a scratch copy of the changed tree).  The changes were written by sub-agents that saw only the property text and a private worktree.", "",
       "`first run` is the result of the check as it was when the change arrived; `now` is the latest run of the current check.", "",
       "| change | prop | what it does | first run | now | strengthened by | head | wall s |", "|---|---|---|---|---|---|---|---|"]
for r in rows:
    out.append("| " + " | ".join(str(x) for x in r) + " |")
n = len(rows)
det = sum(1 for r in rows if r[4].startswith("DETECTED"))
out += ["", f"{det} of {n} confirmed changes are detected by the current checks."]
open(os.path.join(SEEDED, "README.md"), "w").write("\n".join(out) + "\n")
print(f"{det}/{n}")
