#!/venv/bin/python
"""selftest/run_mutant.py <mutant dir with patch.diff/demo.py/meta.json> <PID> [--tier quick|thorough]
confirms the mutant (applies to a scratch copy of /repo outside /repo and /verif, baseline must pass, demo must fail
on the mutant and pass on the original), runs the registered check against the copy, stores everything under
/verif/seeded/<name>/ and removes the scratch copy."""
import json, os, shutil, subprocess, sys, time
mut, pid = sys.argv[1], sys.argv[2]
tier = sys.argv[sys.argv.index("--tier") + 1] if "--tier" in sys.argv else "quick"
name = os.path.basename(mut.rstrip("/"))
scratch = f"/var/tmp/mutants/{name}_x{pid}"
shutil.rmtree(scratch, ignore_errors=True)
os.makedirs(scratch)
repo = os.path.join(scratch, "repo")
subprocess.run(["rsync", "-a", "--exclude", ".git", "/repo/", repo + "/"], check=True)
res = {"mutant": name, "property": pid, "tier": tier, "repo_head": subprocess.run(["git", "-C", "/repo", "rev-parse", "--short", "HEAD"], capture_output=True, text=True).stdout.strip()}
env = dict(os.environ, PYTHONPATH=repo, PYTHONHASHSEED="0")
def demo(tree):
    e = dict(os.environ, PYTHONPATH=tree, PYTHONHASHSEED="0")
    p = subprocess.run(["/venv/bin/python", os.path.join(mut, "demo.py")], capture_output=True, text=True, env=e, cwd=scratch, timeout=900)
    return p.returncode, (p.stdout + p.stderr)[-600:]
rc0, out0 = demo("/repo")
res["demo_on_original"] = rc0
ap = subprocess.run(["patch", "-p1", "-d", repo, "-i", os.path.join(mut, "patch.diff")], capture_output=True, text=True)
res["patch_applies"] = ap.returncode == 0
rc1, out1 = demo(repo)
res["demo_on_mutant"] = rc1
res["demo_mutant_output"] = out1
t = subprocess.run(["/venv/bin/python", "-m", "pytest", "-q", "-p", "no:cacheprovider", "--timeout=900", "--continue-on-collection-errors"],
                   capture_output=True, text=True, cwd=repo, env=env)
res["baseline"] = t.stdout.strip().split("\n")[-1]
res["confirmed"] = res["patch_applies"] and rc0 == 0 and rc1 != 0 and "66 passed" in res["baseline"]
t0 = time.time()
c = subprocess.run(["./check", pid, "--tier", tier], capture_output=True, text=True, cwd="/verif",
                   env=dict(os.environ, COHDL_SRC=repo, VERIF_SCRATCH=name + "_x", VERIF_TIER=tier))
res["check_exit"] = c.returncode
res["check_wall_s"] = round(time.time() - t0, 1)
lines = [l for l in c.stdout.split("\n") if l.startswith("VIOLATION") or l.startswith("KNOWN-FINDING") or l.startswith(pid)]
res["check_lines"] = lines[:12]
res["detected"] = any(l.startswith("VIOLATION") for l in lines)
res["detected_with_input"] = any(l.startswith("VIOLATION") and "no-failing-input-found" not in l for l in lines)
# keep the first replay as illustration
rd = f"/verif/replays/{pid}_{name}_x"
if os.path.isdir(rd):
    fs = sorted(os.listdir(rd))
    if fs:
        try:
            r = json.load(open(os.path.join(rd, fs[0])))
            res["first_replay"] = {k: (v if len(str(v)) < 1500 else str(v)[:1500]) for k, v in r.items() if k in ("what", "key", "path", "traces", "program", "case", "meta", "status")}
        except Exception as e:
            res["first_replay"] = str(e)
    shutil.rmtree(rd, ignore_errors=True)
dst = f"/verif/seeded/{name}"
os.makedirs(dst, exist_ok=True)
for f in ("patch.diff", "demo.py", "meta.json"):
    if os.path.exists(os.path.join(mut, f)):
        shutil.copy(os.path.join(mut, f), dst)
m = {}
try:
    m = json.load(open(os.path.join(dst, "meta.json")))
except Exception:
    pass
m.setdefault("cross_check", {})[pid] = res
json.dump(m, open(os.path.join(dst, "meta.json"), "w"), indent=1)
shutil.rmtree(scratch, ignore_errors=True)
shutil.rmtree(f"/verif/gen/{pid}_{name}_x", ignore_errors=True)
print(json.dumps({k: res[k] for k in ("mutant", "confirmed", "detected", "detected_with_input", "check_wall_s", "baseline", "demo_on_original", "demo_on_mutant")}))
